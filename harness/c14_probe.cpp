// C14 item 4: compile probe.  Import + export of ONE params struct in its own translation unit.
// params::get is a member of a class template and is only instantiated when called, so "the
// export exists" is only observable by instantiating it.  The struct is selected with
//   -DC14_PROBE_HEADER=<amgcl/...hpp>  -DC14_PROBE_TYPE=<params type>   (see framework/props/c14.py).
// A probe that does not compile is a violation keyed by the component ('does-not-compile:<component>').
#include <amgcl/backend/builtin.hpp>
#include <amgcl/adapter/crs_tuple.hpp>
#include <amgcl/amg.hpp>
#include <amgcl/make_solver.hpp>
#include <amgcl/coarsening/smoothed_aggregation.hpp>
#include <amgcl/relaxation/spai0.hpp>
#include <amgcl/relaxation/as_preconditioner.hpp>
#include <amgcl/solver/cg.hpp>
#include C14_PROBE_HEADER
#ifdef C14_PROBE_MPI
#  include <amgcl/mpi/amg.hpp>
#  include <amgcl/mpi/make_solver.hpp>
#  include <amgcl/mpi/coarsening/smoothed_aggregation.hpp>
#  include <amgcl/mpi/relaxation/spai0.hpp>
#  include <amgcl/mpi/relaxation/as_preconditioner.hpp>
#  include <amgcl/mpi/solver/cg.hpp>
#endif
typedef amgcl::backend::builtin<double> B;
struct OtherBackend { typedef double value_type; typedef ptrdiff_t col_type; typedef ptrdiff_t ptr_type; struct params {}; typedef int matrix; typedef int vector; typedef int matrix_diagonal; };
typedef amgcl::amg<B, amgcl::coarsening::smoothed_aggregation, amgcl::relaxation::spai0> AMG0;
typedef amgcl::relaxation::as_preconditioner<B, amgcl::relaxation::spai0> REL0;
typedef amgcl::make_solver<AMG0, amgcl::solver::cg<B>> MS0;
typedef amgcl::make_solver<REL0, amgcl::solver::cg<B>> MS1;
#ifdef C14_PROBE_MPI
typedef amgcl::mpi::amg<B, amgcl::mpi::coarsening::smoothed_aggregation<B>, amgcl::mpi::relaxation::spai0<B>> MAMG0;
typedef amgcl::mpi::make_solver<MAMG0, amgcl::mpi::solver::cg<B>> MMS0;
typedef amgcl::mpi::relaxation::as_preconditioner<amgcl::mpi::relaxation::spai0<B>> MREL0;
#endif
int main() {
    typedef C14_PROBE_TYPE P;
    boost::property_tree::ptree in; P p(in);
    boost::property_tree::ptree out; p.get(out, "x.");
    boost::property_tree::ptree in2 = out.get_child("x", boost::property_tree::ptree()); P q(in2);
    boost::property_tree::ptree out2; q.get(out2, "x.");
    return out == out2 ? 0 : 1;
}
