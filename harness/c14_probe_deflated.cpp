// C14 items 2+4 for deflated_solver: the parameter table WITH the export step.  On the unchanged
// tree this unit does not compile (finding F7: deflated_solver::params::get exports the value
// members nvec and vec with the CHILD macro).  See c14_probe_ilut.cpp for the mechanics.
#define C14_DEFINE_RECORDER
#include "c14_pre.hpp"
#include "c14_fields.hpp"
#include <vf/hooks.hpp>
int main(int argc, char **argv) {
    vf::init(argc, argv);
    using namespace c14; long reps = vf::tier(4, 20), idx = 0;
    { auto tb = make_table<DEFL_amg_cg::params, true>("deflated_solver<amg+cg>", "amgcl::deflated_solver"); for (long rep = 0; rep < reps; ++rep, ++idx) run_table(tb, idx, (int)rep); }
    return vf::finish();
}
