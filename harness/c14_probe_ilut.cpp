// C14 items 2+4 for relaxation::ilut: the parameter table WITH the export step.  On the unchanged
// tree this unit does not compile (finding F10: ilut::params::get(ptree &p, ...) exports the member
// 'p' with AMGCL_PARAMS_EXPORT_VALUE(p, path, p): the argument shadows the member).  The job that
// owns this target has compile_probe set, so the build failure is reported as
// 'does-not-compile:relaxation.ilut'; once the library is repaired the run job executes the table.
#define C14_DEFINE_RECORDER
#include "c14_pre.hpp"
#include "c14_fields.hpp"
#include <vf/hooks.hpp>
int main(int argc, char **argv) {
    vf::init(argc, argv);
    using namespace c14; long reps = vf::tier(4, 20), idx = 0;
    { auto tb = make_table<amgcl::relaxation::ilut<B>::params, true>("relaxation::ilut", "amgcl::relaxation::ilut"); for (long rep = 0; rep < reps; ++rep, ++idx) run_table(tb, idx, (int)rep); }
    { auto tb = make_table<AMG_sa_ilut::params, true>("amg<smoothed_aggregation+ilut>", "amgcl::amg"); for (long rep = 0; rep < reps; ++rep, ++idx) run_table(tb, idx, (int)rep); }
    return vf::finish();
}
