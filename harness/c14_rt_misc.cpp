// C14 item 3 on the run-time classes: enumeration strings and unknown keys.
//  * every documented component name is accepted, selects a distinct enumerator and is written
//    back as the same name; every other string raises an exception -- from the stream operator
//    and from the constructor of the run-time class that reads the key;
//  * an extra key at every nesting level of a fully run-time make_solver tree is reported through
//    the unknown-parameter hook; a tree with documented keys only is silent.
#include "c14_equiv.hpp"
#include "c14_enum.hpp"
#include <amgcl/preconditioner/runtime.hpp>
#include <amgcl/solver/precond_side.hpp>

namespace c14 {
typedef amgcl::make_solver<amgcl::amg<B, amgcl::runtime::coarsening::wrapper, amgcl::runtime::relaxation::wrapper>, amgcl::runtime::solver::wrapper<B>> RTS;
typedef amgcl::make_solver<amgcl::runtime::preconditioner<B>, amgcl::runtime::solver::wrapper<B>> RTP;

void run_enum_cases() {
    Rng g(12345); vf::GridSpec gs; gs.nx = 6; gs.ny = 5; Csr<double> A = vf::grid_diffusion(gs, g);
    long reps = vf::tier(1, 4);
    for (long rep = 0; rep < reps; ++rep) {
        long b = rep * 8;
        enum_case<amgcl::runtime::solver::type>("runtime::solver::type", "type", {"cg", "bicgstab", "bicgstabl", "gmres", "lgmres", "fgmres", "idrs", "richardson", "preonly"}, b + 0,
            [&](ptree &t) { amgcl::runtime::solver::wrapper<B> w(A.n, t); });
        enum_case<amgcl::runtime::relaxation::type>("runtime::relaxation::type", "type", {"gauss_seidel", "ilu0", "iluk", "ilup", "ilut", "damped_jacobi", "spai0", "spai1", "chebyshev"}, b + 1,
            [&](ptree &t) { amgcl::runtime::relaxation::wrapper<B> w(amgcl::backend::crs<double>(A.tie()), t); });
        enum_case<amgcl::runtime::coarsening::type>("runtime::coarsening::type", "type", {"ruge_stuben", "aggregation", "smoothed_aggregation", "smoothed_aggr_emin"}, b + 2,
            [&](ptree &t) { amgcl::runtime::coarsening::wrapper<B> w(t); });
        enum_case<amgcl::runtime::precond_class::type>("runtime::precond_class::type", "class", {"amg", "relaxation", "dummy", "nested"}, b + 3,
            [&](ptree &t) { if (t.get<std::string>("class") == "nested") t.put("precond.class", "dummy"); amgcl::runtime::preconditioner<B> w(A.tie(), t); });
        enum_case<amgcl::preconditioner::side::type>("preconditioner::side::type(gmres)", "pside", {"left", "right"}, b + 4, [&](ptree &t) { amgcl::solver::gmres<B>::params p(t); });
        enum_case<amgcl::preconditioner::side::type>("preconditioner::side::type(lgmres)", "pside", {"left", "right"}, b + 5, [&](ptree &t) { amgcl::solver::lgmres<B>::params p(t); });
        enum_case<amgcl::preconditioner::side::type>("preconditioner::side::type(bicgstab)", "pside", {"left", "right"}, b + 6, [&](ptree &t) { amgcl::solver::bicgstab<B>::params p(t); });
        enum_case<amgcl::preconditioner::side::type>("preconditioner::side::type(bicgstabl)", "pside", {"left", "right"}, b + 7, [&](ptree &t) { amgcl::solver::bicgstabl<B>::params p(t); });
    }
}

// unknown keys through the run-time classes (the children of the run-time params are raw trees:
// the key is only seen when the selected component is constructed)
void run_unknown_runtime_cases() {
    long N = vf::tier(48, 600);
    for (long idx = 0; idx < N; ++idx) {
        if (!vf::selected("unknown_runtime", idx)) continue;
        Rng r(vf::case_seed("unknown_runtime", idx)); Env e(r); e.allow_blocks = false; std::string fam;
        Csr<double> A = gen_matrix(r, fam, 0); e.n = A.n;
        int ci = (int)r.range(0, 3), ri = (int)r.range(0, 8), si = (int)r.range(0, 8); bool viaclass = r.coin(0.4);
        std::string cn = COARSENINGS[ci], rn = RELAXATIONS[ri], sn = SOLVERS[si];
        ptree t; t.put("precond.coarsening.type", cn); t.put("precond.relax.type", rn); t.put("solver.type", sn); if (viaclass) t.put("precond.class", "amg");
        t.put("precond.coarse_enough", 30); if (si != 8) t.put("solver.maxiter", 5);   // preonly has no parameters: maxiter would legitimately be reported
        std::vector<std::string> levels = {"", "precond", "precond.coarsening", "precond.relax", "solver"};
        if (ci != 3) { levels.push_back("precond.coarsening.aggr"); levels.push_back("precond.coarsening.nullspace"); }
        if (ri >= 5) levels.push_back("precond.relax.solve");
        Case c("unknown_runtime", idx, J().s("coarsening", cn).s("relax", rn).s("solver", sn).bl("runtime_preconditioner", viaclass).n("levels", levels.size()));
        auto build = [&](const ptree &tt) { if (viaclass) { RTP s(A.tie(), tt); } else { RTS s(A.tie(), tt); } };
        // The documented-keys-only tree is built first.  An exception here comes from the numerical setup on this matrix (seen: 'Zero diagonal in
        // skyline_lu' with smoothed_aggr_emin, the C02/C03 known finding), not from parameter handling: C14 does not state that every setup
        // succeeds, so the hook cannot be evaluated on this case -- it is counted and skipped.  An exception that appears only WITH the extra key
        // (below) is still a failure: an unknown key must not change behaviour.
        try { unknown_log().clear(); build(t); }
        catch (const std::exception &ex) { vf::obs_sum("unknown_runtime_setup_exception_cases"); vf::obs_add("unknown_runtime_setup_exceptions", cn + ":" + ex.what()); continue; }
        try {
            std::string unk; for (auto &u : unknown_log()) unk += u + " ";
            c.check(unknown_log().empty(), "unknown:runtime:valid-key-reported-unknown", "documented keys reported: " + unk);
            for (auto &lvl : levels) {
                std::string name = "vf_bogus_" + std::to_string(r.range(0, 999)), lv = lvl.empty() ? "<root>" : lvl;
                ptree t2 = t; t2.put((lvl.empty() ? "" : lvl + ".") + name, r.coin() ? "1" : "text");
                unknown_log().clear(); build(t2);
                bool seen = false; for (auto &u : unknown_log()) { if (u == name) seen = true; else c.fail("unknown:runtime:" + lv + ":other-key-reported:" + u, "extra key made the hook report a different key"); }
                c.check(seen, "unknown:runtime:" + lv + ":not-reported", "extra key '" + name + "' at level '" + lv + "' of a run-time tree (" + cn + "," + rn + "," + sn + ") was dropped silently");
                c.nontrivial();
            }
        } catch (const std::exception &ex) { c.fail("unknown:runtime:exception", ex.what()); }
        vf::obs_sum("unknown_runtime_levels", (double)levels.size());
    }
}
} // namespace c14
