// C14 item 3 on the run-time classes: enumeration strings and unknown keys.
//  * every documented component name is accepted, selects a distinct enumerator and is written
//    back as the same name; every other string raises an exception -- from the stream operator
//    and from the constructor of the run-time class that reads the key;
//  * an extra key at every nesting level of a fully run-time make_solver tree is reported through
//    the unknown-parameter hook; a tree with documented keys only is silent.
#include "c14_equiv.hpp"
#include <amgcl/preconditioner/runtime.hpp>
#include <amgcl/solver/precond_side.hpp>

namespace c14 {
typedef amgcl::make_solver<amgcl::amg<B, amgcl::runtime::coarsening::wrapper, amgcl::runtime::relaxation::wrapper>, amgcl::runtime::solver::wrapper<B>> RTS;
typedef amgcl::make_solver<amgcl::runtime::preconditioner<B>, amgcl::runtime::solver::wrapper<B>> RTP;

static std::vector<std::string> mutate(const std::string &s, Rng &r) {
    std::vector<std::string> m = {"", "nonsense", "0", "1", "-1", "default", "???", s + "x", "x" + s, s + "_", "_" + s, s + " x", "x " + s, s + "," + s};
    std::string u = s; for (auto &ch : u) ch = (char)toupper(ch); m.push_back(u);
    std::string cap = s; cap[0] = (char)toupper(cap[0]); m.push_back(cap);
    if (s.size() > 1) { m.push_back(s.substr(0, s.size() - 1)); m.push_back(s.substr(1)); std::string w = s; std::swap(w[0], w[1]); m.push_back(w); }
    std::string d = s; for (auto &ch : d) if (ch == '_') ch = '-'; m.push_back(d);
    std::string rnd; for (int i = 0; i < 6; ++i) rnd += (char)('a' + r.range(0, 25)); m.push_back(rnd);
    return m;
}

// E: enumeration type; ctor(tree) constructs the library object that reads `key` from the tree
template <class E, class Ctor> void enum_case(const char *what, const char *key, const std::vector<std::string> &names, long idx, Ctor ctor) {
    if (!vf::selected("enum_strings", idx)) return;
    Rng r(vf::case_seed("enum_strings", idx));
    Case c("enum_strings", idx, J().s("enumeration", what).n("names", names.size()));
    std::set<int> seen;
    for (auto &n : names) {
        try { ptree t; t.put(key, n); E v = t.get<E>(key); seen.insert((int)v);
              ptree o; o.put(key, v); c.check(o.get<std::string>(key) == n, std::string("enum:") + what + ":" + n + ":name-not-written-back", "valid name is exported as '" + o.get<std::string>(key) + "'");
              ptree t2; t2.put(key, n); ctor(t2); c.nontrivial(); }
        catch (const std::exception &ex) { c.fail(std::string("enum:") + what + ":" + n + ":valid-name-rejected", ex.what()); }
    }
    c.check(seen.size() == names.size(), std::string("enum:") + what + ":names-not-distinct", "two documented names select the same enumerator");
    std::set<std::string> valid(names.begin(), names.end()); long tried = 0;
    for (auto &n : names) for (auto &bad : mutate(n, r)) {
        if (valid.count(bad)) continue; ++tried;
        bool threw = false; try { ptree t; t.put(key, bad); (void)t.get<E>(key); } catch (const std::exception &) { threw = true; }
        c.check(threw, std::string("enum:") + what + ":invalid-string-accepted-by-parser", "'" + bad + "' was converted to an enumerator without an exception");
        threw = false; try { ptree t; t.put(key, bad); ctor(t); } catch (const std::exception &) { threw = true; }
        c.check(threw, std::string("enum:") + what + ":invalid-string-accepted-by-constructor", "'" + bad + "' was accepted by the run-time class");
    }
    vf::obs_sum("invalid_enum_strings_tried", (double)tried); vf::obs_add("enumerations", what);
    vf::sample("enum_strings", J().s("enumeration", what).n("valid_names", names.size()).n("invalid_strings", tried));
}

void run_enum_cases() {
    Rng g(12345); vf::GridSpec gs; gs.nx = 6; gs.ny = 5; Csr<double> A = vf::grid_diffusion(gs, g);
    long reps = vf::tier(1, 4);
    for (long rep = 0; rep < reps; ++rep) {
        long b = rep * 8;
        enum_case<amgcl::runtime::solver::type>("runtime::solver::type", "type", {"cg", "bicgstab", "bicgstabl", "gmres", "lgmres", "fgmres", "idrs", "richardson", "preonly"}, b + 0,
            [&](ptree &t) { amgcl::runtime::solver::wrapper<B> w(A.n, t); });
        enum_case<amgcl::runtime::relaxation::type>("runtime::relaxation::type", "type", {"gauss_seidel", "ilu0", "iluk", "ilup", "ilut", "damped_jacobi", "spai0", "spai1", "chebyshev"}, b + 1,
            [&](ptree &t) { amgcl::runtime::relaxation::wrapper<B> w(amgcl::backend::crs<double>(A.tie()), t); });
        enum_case<amgcl::runtime::coarsening::type>("runtime::coarsening::type", "type", {"ruge_stuben", "aggregation", "smoothed_aggregation", "smoothed_aggr_emin"}, b + 2,
            [&](ptree &t) { amgcl::runtime::coarsening::wrapper<B> w(t); });
        enum_case<amgcl::runtime::precond_class::type>("runtime::precond_class::type", "class", {"amg", "relaxation", "dummy", "nested"}, b + 3,
            [&](ptree &t) { if (t.get<std::string>("class") == "nested") t.put("precond.class", "dummy"); amgcl::runtime::preconditioner<B> w(A.tie(), t); });
        enum_case<amgcl::preconditioner::side::type>("preconditioner::side::type(gmres)", "pside", {"left", "right"}, b + 4, [&](ptree &t) { amgcl::solver::gmres<B>::params p(t); });
        enum_case<amgcl::preconditioner::side::type>("preconditioner::side::type(lgmres)", "pside", {"left", "right"}, b + 5, [&](ptree &t) { amgcl::solver::lgmres<B>::params p(t); });
        enum_case<amgcl::preconditioner::side::type>("preconditioner::side::type(bicgstab)", "pside", {"left", "right"}, b + 6, [&](ptree &t) { amgcl::solver::bicgstab<B>::params p(t); });
        enum_case<amgcl::preconditioner::side::type>("preconditioner::side::type(bicgstabl)", "pside", {"left", "right"}, b + 7, [&](ptree &t) { amgcl::solver::bicgstabl<B>::params p(t); });
    }
}

// unknown keys through the run-time classes (the children of the run-time params are raw trees:
// the key is only seen when the selected component is constructed)
void run_unknown_runtime_cases() {
    long N = vf::tier(24, 240);
    for (long idx = 0; idx < N; ++idx) {
        if (!vf::selected("unknown_runtime", idx)) continue;
        Rng r(vf::case_seed("unknown_runtime", idx)); Env e(r); e.allow_blocks = false; std::string fam;
        Csr<double> A = gen_matrix(r, fam, 0); e.n = A.n;
        int ci = (int)r.range(0, 3), ri = (int)r.range(0, 8), si = (int)r.range(0, 8); bool viaclass = r.coin(0.4);
        std::string cn = COARSENINGS[ci], rn = RELAXATIONS[ri], sn = SOLVERS[si];
        ptree t; t.put("precond.coarsening.type", cn); t.put("precond.relax.type", rn); t.put("solver.type", sn); if (viaclass) t.put("precond.class", "amg");
        t.put("precond.coarse_enough", 30); t.put("solver.maxiter", 5);
        std::vector<std::string> levels = {"", "precond", "precond.coarsening", "precond.relax", "solver"};
        if (ci != 3) { levels.push_back("precond.coarsening.aggr"); levels.push_back("precond.coarsening.nullspace"); }
        if (ri >= 5) levels.push_back("precond.relax.solve");
        Case c("unknown_runtime", idx, J().s("coarsening", cn).s("relax", rn).s("solver", sn).bl("runtime_preconditioner", viaclass).n("levels", levels.size()));
        auto build = [&](const ptree &tt) { if (viaclass) { RTP s(A.tie(), tt); } else { RTS s(A.tie(), tt); } };
        try {
            unknown_log().clear(); build(t);
            std::string unk; for (auto &u : unknown_log()) unk += u + " ";
            c.check(unknown_log().empty(), "unknown:runtime:valid-key-reported-unknown", "documented keys reported: " + unk);
            for (auto &lvl : levels) {
                std::string name = "vf_bogus_" + std::to_string(r.range(0, 999)), lv = lvl.empty() ? "<root>" : lvl;
                ptree t2 = t; t2.put((lvl.empty() ? "" : lvl + ".") + name, r.coin() ? "1" : "text");
                unknown_log().clear(); build(t2);
                bool seen = false; for (auto &u : unknown_log()) { if (u == name) seen = true; else c.fail("unknown:runtime:" + lv + ":other-key-reported:" + u, "extra key made the hook report a different key"); }
                c.check(seen, "unknown:runtime:" + lv + ":not-reported", "extra key '" + name + "' at level '" + lv + "' of a run-time tree (" + cn + "," + rn + "," + sn + ") was dropped silently");
                c.nontrivial();
            }
        } catch (const std::exception &ex) { c.fail("unknown:runtime:exception", ex.what()); }
        vf::obs_sum("unknown_runtime_levels", (double)levels.size());
    }
}
} // namespace c14
