// c14_table.hpp -- the C14 parameter table (DESIGN.md 5/C14 items 2 and 3).
//
// For every params struct of the library a list of (member path == key path) entries is
// written down from the member declarations / the documentation.  The value type is deduced
// from the member.  From one list the harness generates, per struct:
//   * defaults:  P(empty tree) has the members of P()
//   * import:    a tree holding a random non-default value under every key -> every member
//                reads back the value (the field "takes effect" on the struct), no valid key
//                is reported through the unknown-parameter hook
//   * isolation: a tree holding ONE key changes that member and no other member
//   * export:    p.get(out, path) writes every value back unchanged (typed and textual
//                comparison); P(out) has the same members; exporting again gives the same tree
//   * unknown:   an extra key at every nesting level is reported by the hook
// Nothing here mirrors the import/export/check_params lists of the library: the table only
// names members.  A mismatch between the table and the struct does not compile.
#pragma once
#include "c14_pre.hpp"
#include <amgcl/util.hpp>
#include <amgcl/solver/precond_side.hpp>
#include <boost/property_tree/ptree.hpp>
#include <vf/vf.hpp>
#include <functional>
#include <memory>
#include <map>
#include <type_traits>

namespace c14 {
typedef boost::property_tree::ptree ptree;
using vf::J; using vf::Rng; using vf::Case;

//--- type names and value generators ----------------------------------------
template <class T> struct tname { static const char *get() { return "?"; } };
#define C14_TNAME(T) template <> struct tname<T> { static const char *get() { return #T; } };
C14_TNAME(bool) C14_TNAME(int) C14_TNAME(unsigned) C14_TNAME(long) C14_TNAME(unsigned long) C14_TNAME(float) C14_TNAME(double) C14_TNAME(double*)
template <> struct tname<amgcl::preconditioner::side::type> { static const char *get() { return "side::type"; } };

inline double *ptr_pool(size_t k) { static double pool[64]; return pool + (k % 60) + 1; }

template <class T, class = void> struct genval;
template <> struct genval<bool> { static bool make(Rng &r, bool d, int variant) { return variant == 0 ? !d : r.coin(); } };
template <class T> struct genval<T, typename std::enable_if<std::is_integral<T>::value && !std::is_same<T, bool>::value>::type> {
    static T make(Rng &r, T d, int variant) { T v; do { v = (T)(variant >= 2 && r.coin(0.2) ? r.range(1000, 2000000) : r.range(0, 60)); } while (v == d && variant == 0); return v; } };
template <class T> struct genval<T, typename std::enable_if<std::is_floating_point<T>::value>::type> {
    static T make(Rng &r, T d, int variant) { T v; do { v = (T)(variant >= 2 && r.coin(0.3) ? (r.coin() ? -1 : 1) * r.logu(1e-12, 1e9) : r.uni(0.01, 2.0)); } while (v == d); return v; } };
template <> struct genval<amgcl::preconditioner::side::type> { static amgcl::preconditioner::side::type make(Rng &r, amgcl::preconditioner::side::type d, int variant) {
    using namespace amgcl::preconditioner::side; return variant == 0 ? (d == left ? right : left) : (r.coin() ? left : right); } };
template <> struct genval<double*> { static double *make(Rng &r, double *d, int) { double *v; do { v = ptr_pool(r.next()); } while (v == d); return v; } };

template <class T> void put_value(ptree &t, const std::string &key, const T &v) { t.put(key, v); }
// enumerations are written the way a user writes them: as the documented name
inline void put_value(ptree &t, const std::string &key, const amgcl::preconditioner::side::type &v) { t.put(key, v == amgcl::preconditioner::side::left ? "left" : "right"); }

template <class T> std::string show(const T &v) { std::ostringstream s; s.precision(17); s << v; return s.str(); }

//--- table ---------------------------------------------------------------------
template <class P> struct Field {
    std::string key, type;
    bool exported = true;        // false: parameter handed over by pointer, not written back by design (recorded as observation)
    bool optional_in_rep = false; // true: group that is only present in some trees (e.g. near null-space vectors)
    std::vector<std::string> keys;   // tree keys written by this field (== {key} for plain values)
    std::function<void(Rng&, ptree&, const P &dflt, int variant)> put;   // write a fresh value into the tree and remember it
    std::function<bool(const P&)> has;                 // member == remembered value
    std::function<bool(const P&, const P&)> equal;     // member of a == member of b
    std::function<bool(const ptree&, const std::string &pre)> exported_ok;   // typed value under pre+key equals the remembered one
    std::function<std::string(const P&)> str;
    std::function<std::string()> want;
};

template <class P> struct Table {
    std::string component, doc_class;
    std::vector<Field<P>> fields;
    std::vector<std::string> levels;            // nesting levels ("" = root, "coarsening", "coarsening.aggr", ...)
    std::vector<std::string> own_names;         // member names of the struct itself (for the documentation pass)
    std::function<void(ptree&)> base;           // mandatory keys of the component (none for most)
    std::function<P()> make_default;            // P() unless the default constructor is unusable
    Table(const std::string &c, const std::string &d) : component(c), doc_class(d) { levels.push_back(""); }

    template <class G> void add(const std::string &key, G get) {
        typedef typename std::decay<decltype(get(std::declval<P&>()))>::type T;
        Field<P> f; f.key = key; f.type = tname<T>::get(); f.keys.push_back(key);
        auto val = std::make_shared<T>();
        f.put = [key, get, val](Rng &r, ptree &t, const P &d, int variant) { P dd = d; *val = genval<T>::make(r, get(dd), variant); put_value(t, key, *val); };
        f.has = [get, val](const P &p) { P q = p; return get(q) == *val; };
        f.equal = [get](const P &a, const P &b) { P x = a, y = b; return get(x) == get(y); };
        f.exported_ok = [key, val](const ptree &o, const std::string &pre) { auto v = o.get_optional<T>(pre + key); return v && *v == *val; };
        f.str = [get](const P &p) { P q = p; return show(get(q)); };
        f.want = [val]() { return show(*val); };
        fields.push_back(f);
        if (key.find('.') == std::string::npos) own_names.push_back(key);
    }
    void child(const std::string &path) { levels.push_back(path); if (path.find('.') == std::string::npos) own_names.push_back(path); }
};

inline void collect_leaves(const ptree &t, const std::string &pre, std::vector<std::string> &out) {
    for (auto &kv : t) { std::string k = pre.empty() ? kv.first : pre + "." + kv.first; if (kv.second.empty()) out.push_back(k); else collect_leaves(kv.second, k, out); }
}
inline std::string first_unknown() { return unknown_log().empty() ? std::string() : unknown_log().front(); }
inline ptree child_or_empty(const ptree &t, const std::string &path) { if (path.empty()) return t; auto c = t.get_child_optional(path); return c ? *c : ptree(); }
inline bool tree_equal(const ptree &a, const ptree &b) { return a == b; }

struct TableStats { long fields = 0, structs = 0; };
inline TableStats &table_stats() { static TableStats s; return s; }
// (doc_class -> own member names) for the documentation pass
inline std::map<std::string, std::set<std::string>> &table_members() { static std::map<std::string, std::set<std::string>> m; return m; }

template <class P, bool WithExport> struct exporter;
template <class P> struct exporter<P, true> { static void get(const P &p, ptree &o, const std::string &path) { p.get(o, path); } };
template <class P> struct exporter<P, false> { static void get(const P &, ptree &, const std::string &) {} };

// One case of the sub-check "param_table": component x repetition.
template <class P, bool WithExport = true> void run_table(Table<P> &tb, long idx, int rep) {
    const std::string &C = tb.component;
    for (auto &n : tb.own_names) table_members()[tb.doc_class].insert(n);
    if (!vf::selected("param_table", idx)) return;
    Rng r(vf::case_seed("param_table", idx));
    Case c("param_table", idx, J().s("component", C).n("rep", rep).n("fields", tb.fields.size()).bl("export_checked", WithExport));
    try {
        P dflt = tb.make_default ? tb.make_default() : P();
        ptree base; if (tb.base) tb.base(base);
        // defaults
        { unknown_log().clear(); P e(base);
          for (auto &f : tb.fields) if (!f.optional_in_rep) c.check(f.equal(e, dflt), "param:" + C + "." + f.key + ":empty-tree-differs-from-default", "member built from an empty tree is " + f.str(e) + ", default-constructed member is " + f.str(dflt));
          c.check(unknown_log().empty(), "param:" + C + ":valid-key-reported-unknown:" + first_unknown(), "mandatory key reported as unknown"); }
        // import of a full tree
        int variant = rep == 0 ? 0 : 1 + rep % 2;
        ptree t = base; std::vector<char> present(tb.fields.size(), 1);
        for (size_t k = 0; k < tb.fields.size(); ++k) { auto &f = tb.fields[k]; if (f.optional_in_rep && rep % 2 == 1) { present[k] = 0; continue; } f.put(r, t, dflt, variant); }
        unknown_log().clear();
        P p(t);
        c.check(unknown_log().empty(), "param:" + C + ":valid-key-reported-unknown:" + first_unknown(), "a documented key was reported through the unknown-parameter hook");
        for (size_t k = 0; k < tb.fields.size(); ++k) { auto &f = tb.fields[k]; if (!present[k]) continue;
            c.check(f.has(p), "param:" + C + "." + f.key + ":not-imported", "tree value " + f.want() + " did not reach the member (member = " + f.str(p) + ")"); c.nontrivial(); }
        // export
        if (WithExport) {
            std::string pre = rep % 2 ? "x.y." : "";
            ptree out; exporter<P, WithExport>::get(p, out, pre);
            for (size_t k = 0; k < tb.fields.size(); ++k) { auto &f = tb.fields[k]; if (!present[k]) continue;
                if (!f.exported) { vf::obs_add("pointer_params_not_exported_by_design", C + "." + f.key); continue; }
                bool there = (bool)out.get_optional<std::string>(pre + f.key);
                if (!c.check(there, "param:" + C + "." + f.key + ":not-exported", "params::get() did not write the key")) continue;
                c.check(f.exported_ok(out, pre), "param:" + C + "." + f.key + ":export-differs", "exported text '" + out.get<std::string>(pre + f.key) + "' is not the imported value " + f.want());
                c.check(out.get<std::string>(pre + f.key) == t.get<std::string>(f.key), "param:" + C + "." + f.key + ":export-text-differs", "exported text '" + out.get<std::string>(pre + f.key) + "' differs from the imported text '" + t.get<std::string>(f.key) + "'");
            }
            // keys exported but not in the table: the table is incomplete (coverage observation, not a violation)
            { std::vector<std::string> leaves; ptree sub = child_or_empty(out, pre.empty() ? "" : "x.y"); collect_leaves(sub, "", leaves); std::set<std::string> known; for (auto &f : tb.fields) for (auto &k : f.keys) known.insert(k);
              for (auto &l : leaves) if (!known.count(l)) vf::obs_add("exported_keys_missing_from_table", C + "." + l); }
            // import of the export, and export again
            ptree sub = child_or_empty(out, pre.empty() ? "" : "x.y");
            for (size_t k = 0; k < tb.fields.size(); ++k) if (!tb.fields[k].exported && present[k]) for (auto &key : tb.fields[k].keys) if (auto v = t.get_child_optional(key)) sub.put_child(key, *v);   // pointer parameters are handed over again
            if (tb.base) { ptree b; tb.base(b); for (auto &kv : b) if (!sub.get_child_optional(kv.first)) sub.put_child(kv.first, kv.second); }
            unknown_log().clear();
            P q(sub);
            c.check(unknown_log().empty(), "param:" + C + ":exported-key-reported-unknown:" + first_unknown(), "a key written by params::get() is rejected by the import of the same struct");
            for (size_t k = 0; k < tb.fields.size(); ++k) { auto &f = tb.fields[k]; if (!present[k]) continue; c.check(f.equal(p, q), "param:" + C + "." + f.key + ":reimport-differs", "member after import(export(p)) is " + f.str(q) + ", was " + f.str(p)); }
            ptree out2; exporter<P, WithExport>::get(q, out2, pre);
            c.check(tree_equal(out, out2), "param:" + C + ":export-import-export-not-identity", "export(import(export(p))) differs from export(p)");
        }
        // isolation: one key at a time
        for (size_t k = 0; k < tb.fields.size(); ++k) {
            ptree t1 = base; tb.fields[k].put(r, t1, dflt, 0);
            unknown_log().clear(); P p1(t1);
            c.check(tb.fields[k].has(p1), "param:" + C + "." + tb.fields[k].key + ":not-imported-alone", "single-key tree did not reach the member (member = " + tb.fields[k].str(p1) + ", wanted " + tb.fields[k].want() + ")");
            for (size_t m = 0; m < tb.fields.size(); ++m) if (m != k && !tb.fields[m].optional_in_rep)
                c.check(tb.fields[m].equal(p1, dflt), "param:" + C + "." + tb.fields[k].key + ":also-changes:" + tb.fields[m].key, "setting one key changed another member to " + tb.fields[m].str(p1));
            c.check(unknown_log().empty(), "param:" + C + ":valid-key-reported-unknown:" + first_unknown(), "a documented key was reported through the unknown-parameter hook");
        }
        // unknown keys at every nesting level
        for (auto &lvl : tb.levels) for (int kind = 0; kind < 2; ++kind) {
            std::string name = kind ? "vf_bogus_group" : "vf_bogus_key", lv = lvl.empty() ? "<root>" : lvl;
            ptree t2 = t; t2.put((lvl.empty() ? "" : lvl + ".") + name + (kind ? ".inner" : ""), 1);
            unknown_log().clear(); P p2(t2);
            bool seen = false; for (auto &u : unknown_log()) { if (u == name) seen = true; else c.fail("unknown:" + C + ":" + lv + ":other-key-reported:" + u, "injecting an extra key made the hook report a different key"); }
            c.check(seen, "unknown:" + C + ":" + lv + ":not-reported", "extra key '" + name + "' at level '" + lv + "' was dropped silently");
            for (size_t k = 0; k < tb.fields.size(); ++k) if (present[k]) c.check(tb.fields[k].has(p2), "unknown:" + C + ":" + lv + ":disturbs:" + tb.fields[k].key, "an extra key changed the import of a documented one");
        }
        vf::obs_sum("table_struct_cases"); vf::obs_sum("table_field_evaluations", (double)tb.fields.size());
        vf::obs_add("table_components", C);
        if (rep == 0) vf::sample("param_table", J().s("component", C).n("fields", tb.fields.size()).n("levels", tb.levels.size()).bl("export_checked", WithExport));
    } catch (const std::exception &ex) {
        c.fail("param:" + C + ":exception", std::string("valid parameter tree rejected: ") + ex.what());
    }
}

//--- field-list macros ----------------------------------------------------------
// C14_FIELDS(TYPE) { C14_VAL(member) ... C14_CHILD(member) ... }   defines the overload add_fields(tb, prefix, accessor, (TYPE*)0)
#define C14_FIELDS(...) template <class P, class A> void add_fields(::c14::Table<P> &tb, const std::string &pre, A acc, __VA_ARGS__ *)
#define C14_VAL(m) tb.add(pre + #m, [acc](P &p) -> auto& { return acc(p).m; });
#define C14_CHILD(m) { tb.child(pre + #m); auto sub = [acc](P &p) -> auto& { return acc(p).m; }; \
    add_fields(tb, pre + #m ".", sub, (typename std::decay<decltype(acc(std::declval<P&>()).m)>::type*)0); }

C14_FIELDS(amgcl::detail::empty_params) {}

template <class P> Table<P> make_table(const std::string &component, const std::string &doc_class) {
    Table<P> tb(component, doc_class); add_fields(tb, "", [](P &p) -> P& { return p; }, (P*)0); return tb;
}
} // namespace c14
