// c14_table.hpp -- the C14 parameter table (DESIGN.md 5/C14 items 2 and 3).
//
// For every params struct of the library a list of (member path == key path) entries is
// written down from the member declarations / the documentation.  The value type is deduced
// from the member.  From one list the harness generates, per struct:
//   * defaults:  P(empty tree) has the members of P()
//   * import:    a tree holding a random non-default value under every key -> every member
//                reads back the value (the field "takes effect" on the struct), no valid key
//                is reported through the unknown-parameter hook
//   * isolation: a tree holding ONE key changes that member and no other member
//   * export:    p.get(out, path) writes every value back unchanged (typed and textual
//                comparison); P(out) has the same members; exporting again gives the same tree
//   * unknown:   an extra key at every nesting level is reported by the hook
// Nothing here mirrors the import/export/check_params lists of the library: the table only
// names members.  A mismatch between the table and the struct does not compile.
//
// Implementation note: members are addressed by their byte offset inside the params object
// (measured on a live object), so that the checking code is compiled once and not once per
// struct (the first, fully templated version took 2.5 min to compile).
#pragma once
#include "c14_pre.hpp"
#include <amgcl/util.hpp>
#include <amgcl/solver/precond_side.hpp>
#include <boost/property_tree/ptree.hpp>
#include <vf/vf.hpp>
#include <functional>
#include <omp.h>
#include <algorithm>
#include <memory>
#include <map>
#include <type_traits>

namespace c14 {
typedef boost::property_tree::ptree ptree;
using vf::J; using vf::Rng; using vf::Case;

//--- type names and value generators ----------------------------------------
template <class T> struct tname { static const char *get() { return "?"; } };
#define C14_TNAME(T) template <> struct tname<T> { static const char *get() { return #T; } };
C14_TNAME(bool) C14_TNAME(int) C14_TNAME(unsigned) C14_TNAME(long) C14_TNAME(unsigned long) C14_TNAME(float) C14_TNAME(double) C14_TNAME(double*)
template <> struct tname<amgcl::preconditioner::side::type> { static const char *get() { return "side::type"; } };

inline double *ptr_pool(size_t k) { static double pool[64]; return pool + (k % 60) + 1; }

template <class T, class = void> struct genval;
template <> struct genval<bool> { static bool make(Rng &r, bool d, int variant) { return variant == 0 ? !d : r.coin(); } };
template <class T> struct genval<T, typename std::enable_if<std::is_integral<T>::value && !std::is_same<T, bool>::value>::type> {
    static T make(Rng &r, T d, int variant) { T v; do { v = (T)(variant >= 2 && r.coin(0.2) ? r.range(1000, 2000000) : r.range(1, 60)); } while (v == d && variant == 0); return v; } };
template <class T> struct genval<T, typename std::enable_if<std::is_floating_point<T>::value>::type> {
    static T make(Rng &r, T d, int variant) { T v; do { v = (T)(variant >= 2 && r.coin(0.3) ? (r.coin() ? -1 : 1) * r.logu(1e-12, 1e9) : r.uni(0.01, 2.0)); } while (v == d); return v; } };
template <> struct genval<amgcl::preconditioner::side::type> { static amgcl::preconditioner::side::type make(Rng &r, amgcl::preconditioner::side::type d, int variant) {
    using namespace amgcl::preconditioner::side; return variant == 0 ? (d == left ? right : left) : (r.coin() ? left : right); } };
template <> struct genval<double*> { static double *make(Rng &r, double *d, int) { double *v; do { v = ptr_pool(r.next()); } while (v == d); return v; } };

template <class T> void put_value(ptree &t, const std::string &key, const T &v) { t.put(key, v); }
// enumerations are written the way a user writes them: as the documented name
inline void put_value(ptree &t, const std::string &key, const amgcl::preconditioner::side::type &v) { t.put(key, v == amgcl::preconditioner::side::left ? "left" : "right"); }

template <class T> std::string show(const T &v) { std::ostringstream s; s.precision(17); s << v; return s.str(); }

//--- table ---------------------------------------------------------------------
struct Field {
    std::string key, type; size_t offset = 0;   // offset of the member (or of the sub-struct a group field works on) inside the params object
    bool exported = true;         // false: parameter handed over by pointer, not written back by design (recorded as observation)
    bool optional_in_rep = false; // true: group that is only present in some trees (e.g. near null-space vectors)
    std::vector<std::string> keys;   // tree keys written by this field (== {key} for plain values)
    std::function<void(Rng&, ptree&, const void *dflt_member, int variant)> put;   // write a fresh value into the tree and remember it
    std::function<bool(const void*)> has;                   // member == remembered value
    std::function<bool(const void*, const void*)> equal;    // two members equal
    std::function<bool(const ptree&, const std::string &pre)> exported_ok;   // typed value under pre+key equals the remembered one
    std::function<std::string(const void*)> str;
    std::function<std::string()> want;
};

template <class T> Field value_field(const std::string &key, size_t offset) {
    Field f; f.key = key; f.type = tname<T>::get(); f.keys.push_back(key); f.offset = offset;
    auto val = std::make_shared<T>();
    f.put = [key, val](Rng &r, ptree &t, const void *d, int variant) { *val = genval<T>::make(r, *static_cast<const T*>(d), variant); put_value(t, key, *val); };
    f.has = [val](const void *m) { return *static_cast<const T*>(m) == *val; };
    f.equal = [](const void *a, const void *b) { return *static_cast<const T*>(a) == *static_cast<const T*>(b); };
    f.exported_ok = [key, val](const ptree &o, const std::string &pre) { auto v = o.get_optional<T>(pre + key); return v && *v == *val; };
    f.str = [](const void *m) { return show(*static_cast<const T*>(m)); };
    f.want = [val]() { return show(*val); };
    return f;
}

// type-erased params object
struct Ops {
    void *(*make)(const ptree*) = nullptr;      // nullptr tree: default constructor
    void (*destroy)(void*) = nullptr;
    void (*get)(const void*, ptree&, const std::string&) = nullptr;    // params::get(); nullptr when the export is checked elsewhere
};
struct Obj { void *p; const Ops *o; Obj(void *p_, const Ops *o_) : p(p_), o(o_) {} ~Obj() { if (p) o->destroy(p); } Obj(const Obj&) = delete; Obj &operator=(const Obj&) = delete; };

struct TableBase {
    std::string component, doc_class; Ops ops;
    std::vector<Field> fields;
    std::vector<std::string> levels;            // nesting levels ("" = root, "coarsening", "coarsening.aggr", ...)
    std::vector<std::string> own_names;         // member names of the struct itself (for the documentation pass)
    std::function<void(ptree&)> base;           // mandatory keys of the component (none for most)
    std::map<std::string, std::set<std::string>> accepts;   // level -> names the struct whitelists on behalf of a params class derived from it (C14_ACCEPTS)
    void child(const std::string &path) { levels.push_back(path); if (path.find('.') == std::string::npos) own_names.push_back(path); }
};

template <class P> struct Table : TableBase {
    std::shared_ptr<P> probe;                   // live object the offsets are measured on
    template <class M> size_t offset_of(M &m) const { return (size_t)(reinterpret_cast<const char*>(&m) - reinterpret_cast<const char*>(probe.get())); }
    template <class M> void add(const std::string &key, M &member) {
        fields.push_back(value_field<typename std::decay<M>::type>(key, offset_of(member)));
        if (key.find('.') == std::string::npos) own_names.push_back(key);
    }
};

inline void collect_leaves(const ptree &t, const std::string &pre, std::vector<std::string> &out) {
    for (auto &kv : t) { std::string k = pre.empty() ? kv.first : pre + "." + kv.first; if (kv.second.empty()) out.push_back(k); else collect_leaves(kv.second, k, out); }
}
inline std::string first_unknown() { return unknown_log().empty() ? std::string() : unknown_log().front(); }
inline ptree child_or_empty(const ptree &t, const std::string &path) { if (path.empty()) return t; auto c = t.get_child_optional(path); return c ? *c : ptree(); }
inline void erase_path(ptree &t, const std::string &path) { size_t d = path.rfind('.'); if (d == std::string::npos) { t.erase(path); return; } if (auto c = t.get_child_optional(path.substr(0, d))) c->erase(path.substr(d + 1)); }

// Universe of key names for the sibling-key injection: every field / child name of every params struct.  The static part makes
// the small binaries (probe tables) use the same universe; every table adds its own names when it is built.
inline std::set<std::string> &key_universe() {
    static std::set<std::string> u = {"maxiter", "tol", "abstol", "ns_search", "verbose", "check_after", "pside", "L", "delta", "convex", "M", "K", "always_reset", "s", "omega",
        "smoothing", "replacement", "damping", "serial", "degree", "higher", "lower", "power_iters", "scale", "iters", "k", "p", "tau", "solve", "eps_strong", "block_size",
        "cols", "rows", "B", "aggr", "nullspace", "over_interp", "relax", "estimate_spectral_radius", "do_trunc", "eps_trunc", "coarsening", "coarse_enough", "direct_coarse",
        "max_levels", "npre", "npost", "ncycle", "pre_cycles", "allow_rebuild", "precond", "solver", "nvec", "vec", "pprecond", "sprecond", "active_rows", "eps_dd", "eps_ps",
        "weights", "weights_size", "usolver", "psolver", "type", "approx_schur", "adjust_p", "simplec_dia", "pmask", "pmask_size", "pmask_pattern", "direct", "repart", "enable",
        "min_per_proc", "shrink_ratio", "local", "isolver", "dsolver", "num_def_vec", "def_vec"};
    return u;
}
// level -> names that are documented keys at that level of the table
inline std::map<std::string, std::set<std::string>> level_names(const TableBase &tb) {
    std::map<std::string, std::set<std::string>> m; for (auto &l : tb.levels) m[l];
    auto add = [&](const std::string &path) { size_t d = path.rfind('.'); if (d == std::string::npos) m[""].insert(path); else m[path.substr(0, d)].insert(path.substr(d + 1)); };
    for (auto &f : tb.fields) for (auto &k : f.keys) add(k);
    for (auto &l : tb.levels) if (!l.empty()) add(l);
    return m;
}

// (doc_class -> own member names) for the documentation pass
inline std::map<std::string, std::set<std::string>> &table_members() { static std::map<std::string, std::set<std::string>> m; return m; }

// One case of the sub-check "param_table": component x repetition.
inline void run_table(TableBase &tb, long idx, int rep) {
    const std::string &C = tb.component; const bool WithExport = tb.ops.get != nullptr;
    for (auto &n : tb.own_names) table_members()[tb.doc_class].insert(n);
    if (!vf::selected("param_table", idx)) return;
    Rng r(vf::case_seed("param_table", idx));
    Case c("param_table", idx, J().s("component", C).n("rep", rep).n("fields", tb.fields.size()).bl("export_checked", WithExport));
    auto mem = [](const Obj &o, const Field &f) { return static_cast<const void*>(static_cast<const char*>(o.p) + f.offset); };
    try {
        ptree base; if (tb.base) tb.base(base);
        Obj dflt(tb.ops.make(tb.base ? &base : nullptr), &tb.ops);
        // defaults
        { unknown_log().clear(); Obj e(tb.ops.make(&base), &tb.ops);
          for (auto &f : tb.fields) if (!f.optional_in_rep) c.check(f.equal(mem(e, f), mem(dflt, f)), "param:" + C + "." + f.key + ":empty-tree-differs-from-default", "member built from an empty tree is " + f.str(mem(e, f)) + ", default-constructed member is " + f.str(mem(dflt, f)));
          c.check(unknown_log().empty(), "param:" + C + ":valid-key-reported-unknown:" + first_unknown(), "mandatory key reported as unknown"); }
        // thread-count history inside one process: some defaults are functions of the OpenMP thread count (ilu_solve::serial =
        // max_threads < 4).  "Import of an empty tree == default construction" must hold at every point of a history
        // 2 -> 8 -> 2 threads (odd cases: 8 -> 2 -> 8), i.e. an absent key takes the default of NOW, as the compile-time
        // composition does.  Only params objects are built here, no parallel region runs with the changed count.
        { int saved = omp_get_max_threads(); const int hist[2][3] = {{2, 8, 2}, {8, 2, 8}};
          for (int step = 0; step < 3; ++step) { int nt = hist[idx % 2][step]; omp_set_num_threads(nt);
            Obj d2(tb.ops.make(tb.base ? &base : nullptr), &tb.ops), e2(tb.ops.make(&base), &tb.ops);
            for (auto &f : tb.fields) if (!f.optional_in_rep) c.check(f.equal(mem(e2, f), mem(d2, f)), "param:" + C + "." + f.key + ":empty-tree-differs-from-default-after-thread-count-change",
                "history step " + std::to_string(step) + " (omp_set_num_threads(" + std::to_string(nt) + ")): member built from an empty tree is " + f.str(mem(e2, f)) + ", default-constructed member is " + f.str(mem(d2, f)));
            if (WithExport) { ptree o1, o2; tb.ops.get(d2.p, o1, ""); tb.ops.get(e2.p, o2, "");
                c.check(o1 == o2, "param:" + C + ":export-of-empty-tree-import-differs-from-export-of-default-after-thread-count-change", "omp_set_num_threads(" + std::to_string(nt) + ")"); }
          }
          omp_set_num_threads(saved); vf::obs_sum("thread_history_steps", 3); }
        // import of a full tree
        int variant = rep == 0 ? 0 : 1 + rep % 2;
        ptree t = base; std::vector<char> present(tb.fields.size(), 1);
        for (size_t k = 0; k < tb.fields.size(); ++k) { auto &f = tb.fields[k]; if (f.optional_in_rep && rep % 2 == 1) { present[k] = 0; continue; } f.put(r, t, mem(dflt, f), variant); }
        unknown_log().clear();
        Obj p(tb.ops.make(&t), &tb.ops);
        c.check(unknown_log().empty(), "param:" + C + ":valid-key-reported-unknown:" + first_unknown(), "a documented key was reported through the unknown-parameter hook");
        for (size_t k = 0; k < tb.fields.size(); ++k) { auto &f = tb.fields[k]; if (!present[k]) continue;
            c.check(f.has(mem(p, f)), "param:" + C + "." + f.key + ":not-imported", "tree value " + f.want() + " did not reach the member (member = " + f.str(mem(p, f)) + ")"); c.nontrivial(); }
        // export
        if (WithExport) {
            std::string pre = rep % 2 ? "x.y." : "";
            ptree out; tb.ops.get(p.p, out, pre);
            for (size_t k = 0; k < tb.fields.size(); ++k) { auto &f = tb.fields[k]; if (!present[k]) continue;
                if (!f.exported) { vf::obs_add("pointer_params_not_exported_by_design", C + "." + f.key); continue; }
                bool there = (bool)out.get_optional<std::string>(pre + f.key);
                if (!c.check(there, "param:" + C + "." + f.key + ":not-exported", "params::get() did not write the key")) continue;
                c.check(f.exported_ok(out, pre), "param:" + C + "." + f.key + ":export-differs", "exported text '" + out.get<std::string>(pre + f.key) + "' is not the imported value " + f.want());
                c.check(out.get<std::string>(pre + f.key) == t.get<std::string>(f.key), "param:" + C + "." + f.key + ":export-text-differs", "exported text '" + out.get<std::string>(pre + f.key) + "' differs from the imported text '" + t.get<std::string>(f.key) + "'");
            }
            ptree sub = child_or_empty(out, pre.empty() ? "" : "x.y");
            // keys exported but not in the table: the table is incomplete (coverage observation, not a violation)
            { std::vector<std::string> leaves; collect_leaves(sub, "", leaves); std::set<std::string> known; for (auto &f : tb.fields) for (auto &k : f.keys) known.insert(k);
              for (auto &l : leaves) if (!known.count(l)) vf::obs_add("exported_keys_missing_from_table", C + "." + l); }
            // import of the export, and export again
            if (tb.base) { ptree b; tb.base(b); for (auto &kv : b) if (!sub.get_child_optional(kv.first)) sub.put_child(kv.first, kv.second); }
            for (size_t k = 0; k < tb.fields.size(); ++k) if (!tb.fields[k].exported && present[k]) for (auto &key : tb.fields[k].keys) {   // pointer parameters are handed over again
                erase_path(sub, key); if (auto v = t.get_child_optional(key)) sub.put_child(key, *v); }
            unknown_log().clear();
            Obj q(tb.ops.make(&sub), &tb.ops);
            c.check(unknown_log().empty(), "param:" + C + ":exported-key-reported-unknown:" + first_unknown(), "a key written by params::get() is rejected by the import of the same struct");
            for (size_t k = 0; k < tb.fields.size(); ++k) { auto &f = tb.fields[k]; if (!present[k]) continue; c.check(f.equal(mem(p, f), mem(q, f)), "param:" + C + "." + f.key + ":reimport-differs", "member after import(export(p)) is " + f.str(mem(q, f)) + ", was " + f.str(mem(p, f))); }
            ptree out2; tb.ops.get(q.p, out2, pre);
            c.check(out == out2, "param:" + C + ":export-import-export-not-identity", "export(import(export(p))) differs from export(p)");
        }
        // unknown keys at every nesting level
        for (auto &lvl : tb.levels) for (int kind = 0; kind < 2; ++kind) {
            std::string name = kind ? "vf_bogus_group" : "vf_bogus_key", lv = lvl.empty() ? "<root>" : lvl;
            ptree t2 = t; t2.put((lvl.empty() ? "" : lvl + ".") + name + (kind ? ".inner" : ""), 1);
            unknown_log().clear(); Obj p2(tb.ops.make(&t2), &tb.ops);
            bool seen = false; for (auto &u : unknown_log()) { if (u == name) seen = true; else c.fail("unknown:" + C + ":" + lv + ":other-key-reported:" + u, "injecting an extra key made the hook report a different key"); }
            c.check(seen, "unknown:" + C + ":" + lv + ":not-reported", "extra key '" + name + "' at level '" + lv + "' was dropped silently");
            for (size_t k = 0; k < tb.fields.size(); ++k) if (present[k]) c.check(tb.fields[k].has(mem(p2, tb.fields[k])), "unknown:" + C + ":" + lv + ":disturbs:" + tb.fields[k].key, "an extra key changed the import of a documented one");
        }
        // sibling keys: every name that is a documented key of SOME params struct but not of this level must be reported too
        // (a check_params list copied from a sibling class would accept them silently)
        { auto names = level_names(tb);
          for (auto &lvl : tb.levels) {
            std::string lv = lvl.empty() ? "<root>" : lvl; ptree t3 = t; std::vector<std::string> injected;
            auto acc = tb.accepts.find(lvl);
            for (auto &name : key_universe()) { if (names[lvl].count(name)) continue;
                if (acc != tb.accepts.end() && acc->second.count(name)) { vf::obs_add("keys_whitelisted_for_a_derived_params_class", C + ":" + lv + "." + name); continue; }
                t3.put((lvl.empty() ? "" : lvl + ".") + name, 1); injected.push_back(name); }
            unknown_log().clear(); Obj p3(tb.ops.make(&t3), &tb.ops);
            std::set<std::string> seen(unknown_log().begin(), unknown_log().end());
            for (auto &name : injected) c.check(seen.count(name) > 0, "unknown:" + C + ":" + lv + ":foreign-key-not-reported:" + name, "key '" + name + "' (a parameter of another component) at level '" + lv + "' is neither a member of this struct nor reported through the unknown-parameter hook");
            for (auto &u : seen) if (!std::count(injected.begin(), injected.end(), u)) c.fail("unknown:" + C + ":" + lv + ":other-key-reported:" + u, "injecting foreign keys made the hook report a documented key");
            for (size_t k = 0; k < tb.fields.size(); ++k) if (present[k]) c.check(tb.fields[k].has(mem(p3, tb.fields[k])), "unknown:" + C + ":" + lv + ":foreign-keys-disturb:" + tb.fields[k].key, "foreign keys changed the import of a documented one");
            vf::obs_sum("foreign_keys_injected", (double)injected.size());
          } }
        // isolation: one key at a time (last: it overwrites the remembered values)
        for (size_t k = 0; k < tb.fields.size(); ++k) { auto &fk = tb.fields[k];
            ptree t1 = base; fk.put(r, t1, mem(dflt, fk), 0);
            unknown_log().clear(); Obj p1(tb.ops.make(&t1), &tb.ops);
            c.check(fk.has(mem(p1, fk)), "param:" + C + "." + fk.key + ":not-imported-alone", "single-key tree did not reach the member (member = " + fk.str(mem(p1, fk)) + ", wanted " + fk.want() + ")");
            for (size_t m = 0; m < tb.fields.size(); ++m) { auto &fm = tb.fields[m]; if (m != k && !fm.optional_in_rep && fm.offset != fk.offset)
                c.check(fm.equal(mem(p1, fm), mem(dflt, fm)), "param:" + C + "." + fk.key + ":also-changes:" + fm.key, "setting one key changed another member to " + fm.str(mem(p1, fm))); }
            c.check(unknown_log().empty(), "param:" + C + ":valid-key-reported-unknown:" + first_unknown(), "a documented key was reported through the unknown-parameter hook");
        }
        vf::obs_sum("table_struct_cases"); vf::obs_sum("table_field_evaluations", (double)tb.fields.size());
        vf::obs_add("table_components", C);
        if (rep == 0) vf::sample("param_table", J().s("component", C).n("fields", tb.fields.size()).n("levels", tb.levels.size()).bl("export_checked", WithExport));
    } catch (const std::exception &ex) {
        c.fail("param:" + C + ":exception", std::string("valid parameter tree rejected: ") + ex.what());
    }
}

//--- field-list macros ----------------------------------------------------------
// C14_FIELDS(TYPE) { C14_VAL(member) ... C14_CHILD(member) ... }   defines the overload add_fields(tb, prefix, accessor, (TYPE*)0)
#define C14_FIELDS(...) template <class P, class A> void add_fields(::c14::Table<P> &tb, const std::string &pre, A acc, __VA_ARGS__ *)
#define C14_VAL(m) tb.add(pre + #m, acc(*tb.probe).m);
#define C14_CHILD(m) { tb.child(pre + #m); auto sub = [acc](P &p) -> auto& { return acc(p).m; }; \
    add_fields(tb, pre + #m ".", sub, (typename std::decay<decltype(acc(std::declval<P&>()).m)>::type*)0); }

// the struct's check_params list names this key although the struct has no such member (it is a member of a params class derived from it)
#define C14_ACCEPTS(m) tb.accepts[pre.empty() ? std::string() : pre.substr(0, pre.size() - 1)].insert(#m);

C14_FIELDS(amgcl::detail::empty_params) {}

template <class P> void *ops_make(const ptree *t) { return t ? new P(*t) : new P(); }
template <class P> void ops_destroy(void *p) { delete static_cast<P*>(p); }
template <class P> void ops_get(const void *p, ptree &o, const std::string &path) { static_cast<const P*>(p)->get(o, path); }

// WithExport = false: params::get() of this struct is NOT instantiated in this translation unit
template <class P, bool WithExport = true> Table<P> make_table(const std::string &component, const std::string &doc_class, std::function<void(ptree&)> base = nullptr) {
    Table<P> tb; tb.component = component; tb.doc_class = doc_class; tb.levels.push_back(""); tb.base = base;
    tb.ops.make = &ops_make<P>; tb.ops.destroy = &ops_destroy<P>;
    if constexpr (WithExport) tb.ops.get = &ops_get<P>;
    if (base) { ptree b; base(b); tb.probe.reset(new P(b)); } else tb.probe.reset(new P());
    add_fields(tb, "", [](P &p) -> P& { return p; }, (P*)0);
    for (auto &lv : level_names(tb)) for (auto &n : lv.second) key_universe().insert(n);
    return tb;
}
} // namespace c14
