// C14 item 2: the parameter table over every serial params struct (see c14_table.hpp for the
// oracles, c14_fields.hpp for the member lists).  relaxation::ilut and deflated_solver are run
// here without the export step: their params::get() is instantiated in the probe targets
// c14_probe_relaxation.ilut / c14_probe_deflated_solver (findings F10 / F7 make those not compile;
// once they compile, the same tables run there with the export step).
#include "c14_fields.hpp"
namespace c14 {
std::map<std::string, std::set<std::string>> &table_members_ref() { return table_members(); }
void run_param_tables() {
    long reps = vf::tier(4, 20); long idx = 0;
#define C14_RUN(TYPE, NAME, DOC, EXPORT, ...) { auto tb = make_table<TYPE, EXPORT>(NAME, DOC, ##__VA_ARGS__); for (long rep = 0; rep < reps; ++rep, ++idx) run_table(tb, idx, (int)rep); }
    using namespace amgcl;
    C14_RUN(solver::cg<B>::params,         "solver::cg",         "amgcl::solver::cg", true)
    C14_RUN(solver::bicgstab<B>::params,   "solver::bicgstab",   "amgcl::solver::bicgstab", true)
    C14_RUN(solver::bicgstabl<B>::params,  "solver::bicgstabl",  "amgcl::solver::bicgstabl", true)
    C14_RUN(solver::gmres<B>::params,      "solver::gmres",      "amgcl::solver::gmres", true)
    C14_RUN(solver::lgmres<B>::params,     "solver::lgmres",     "amgcl::solver::lgmres", true)
    C14_RUN(solver::fgmres<B>::params,     "solver::fgmres",     "amgcl::solver::fgmres", true)
    C14_RUN(solver::idrs<B>::params,       "solver::idrs",       "amgcl::solver::idrs", true)
    C14_RUN(solver::richardson<B>::params, "solver::richardson", "amgcl::solver::richardson", true)
    C14_RUN(solver::preonly<B>::params,    "solver::preonly",    "amgcl::solver::preonly", true)
    C14_RUN(relaxation::damped_jacobi<B>::params, "relaxation::damped_jacobi", "amgcl::relaxation::damped_jacobi", true)
    C14_RUN(relaxation::gauss_seidel<B>::params,  "relaxation::gauss_seidel",  "amgcl::relaxation::gauss_seidel", true)
    C14_RUN(relaxation::spai0<B>::params,         "relaxation::spai0",         "amgcl::relaxation::spai0", true)
    C14_RUN(relaxation::spai1<B>::params,         "relaxation::spai1",         "amgcl::relaxation::spai1", true)
    C14_RUN(relaxation::chebyshev<B>::params,     "relaxation::chebyshev",     "amgcl::relaxation::chebyshev", true)
    C14_RUN(relaxation::detail::ilu_solve<B>::params,            "relaxation::ilu_solve<builtin>", "amgcl::relaxation::detail::ilu_solve", true)
    C14_RUN(relaxation::detail::ilu_solve<OtherBackend>::params, "relaxation::ilu_solve<generic>", "amgcl::relaxation::detail::ilu_solve", true)
    C14_RUN(relaxation::ilu0<B>::params, "relaxation::ilu0", "amgcl::relaxation::ilu0", true)
    C14_RUN(relaxation::iluk<B>::params, "relaxation::iluk", "amgcl::relaxation::iluk", true)
    C14_RUN(relaxation::ilup<B>::params, "relaxation::ilup", "amgcl::relaxation::ilup", true)
    C14_RUN(relaxation::ilut<B>::params, "relaxation::ilut", "amgcl::relaxation::ilut", false)
    C14_RUN(coarsening::plain_aggregates::params,     "coarsening::plain_aggregates",     "amgcl::coarsening::plain_aggregates", true)
    C14_RUN(coarsening::pointwise_aggregates::params, "coarsening::pointwise_aggregates", "amgcl::coarsening::pointwise_aggregates", true)
    C14_RUN(coarsening::nullspace_params,             "coarsening::nullspace_params",     "amgcl::coarsening::nullspace_params", true)
    C14_RUN(coarsening::aggregation<B>::params,          "coarsening::aggregation",          "amgcl::coarsening::aggregation", true)
    C14_RUN(coarsening::smoothed_aggregation<B>::params, "coarsening::smoothed_aggregation", "amgcl::coarsening::smoothed_aggregation", true)
    C14_RUN(coarsening::smoothed_aggr_emin<B>::params,   "coarsening::smoothed_aggr_emin",   "amgcl::coarsening::smoothed_aggr_emin", true)
    C14_RUN(coarsening::ruge_stuben<B>::params,          "coarsening::ruge_stuben",          "amgcl::coarsening::ruge_stuben", true)
    C14_RUN(backend::block_crs<double>::params,          "backend::block_crs",               "amgcl::backend::block_crs", true)
    C14_RUN(AMG_sa_spai0::params, "amg<smoothed_aggregation+spai0>", "amgcl::amg", true)
    C14_RUN(AMG_sa_ilut::params,  "amg<smoothed_aggregation+ilut>",  "amgcl::amg", false)
    C14_RUN(AMG_ag_ilu0::params,  "amg<aggregation+ilu0>",           "amgcl::amg", true)
    C14_RUN(AMG_em_iluk::params,  "amg<smoothed_aggr_emin+iluk>",    "amgcl::amg", true)
    C14_RUN(AMG_rs_ilup::params,  "amg<ruge_stuben+ilup>",           "amgcl::amg", true)
    C14_RUN(AMG_sa_cheb::params,  "amg<smoothed_aggregation+chebyshev>", "amgcl::amg", true)
    C14_RUN(AMG_ag_gs::params,    "amg<aggregation+gauss_seidel>",   "amgcl::amg", true)
    C14_RUN(AMG_em_dj::params,    "amg<smoothed_aggr_emin+damped_jacobi>", "amgcl::amg", true)
    C14_RUN(AMG_rs_spai1::params, "amg<ruge_stuben+spai1>",          "amgcl::amg", true)
    C14_RUN(MS_amg_cg::params,         "make_solver<amg+cg>",                 "amgcl::make_solver", true)
    C14_RUN(MS_ilu0_gmres::params,     "make_solver<relaxation(ilu0)+gmres>", "amgcl::make_solver", true)
    C14_RUN(MS_spai0_bicgstab::params, "make_solver<relaxation(spai0)+bicgstab>", "amgcl::make_solver", true)
    C14_RUN(DEFL_amg_cg::params,       "deflated_solver<amg+cg>",             "amgcl::deflated_solver", false)
    C14_RUN(CPR_t::params,    "preconditioner::cpr",     "amgcl::preconditioner::cpr", true)
    C14_RUN(CPRDRS_t::params, "preconditioner::cpr_drs", "amgcl::preconditioner::cpr_drs", true)
    C14_RUN(SCHUR_t::params,  "preconditioner::schur_pressure_correction", "amgcl::preconditioner::schur_pressure_correction", true,
            [](ptree &b) { b.put("pmask_size", 6); b.put("pmask_pattern", "%1:2"); })
    C14_RUN(preconditioner::dummy<B>::params, "preconditioner::dummy", "amgcl::preconditioner::dummy", true)
#undef C14_RUN
}
} // namespace c14
