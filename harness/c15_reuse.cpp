// C15 -- solver and preconditioner objects are reusable; calls do not leak state (DESIGN.md 5/C15).
// Differential oracle over histories: a script of calls is run on ONE object; after every step the same call is made on a FRESHLY
// constructed object (same constructor arguments, plus the latest rebuild if the script rebuilt); (iters, res, x) must agree bitwise
// (single thread).  Further oracles: zero rhs -> zero vector / 0 iterations; converged initial guess -> unchanged / 0 iterations;
// right-hand sides and matrix arrays are kept in read-only pages (mprotect) for the whole case and are digested after every call;
// the object's own copy of the system matrix is digested after every call.
// Sub-checks: history (make_solver<runtime::preconditioner, runtime::solver::wrapper>), throwing (solver objects with a harness
// preconditioner that throws in the middle of a solve), midsolve / lgmres-toggle (abort after at least one restart cycle; always_reset switched
// back on), direct (skyline_lu histories).
#include <amgcl/backend/builtin.hpp>
#include <amgcl/adapter/crs_tuple.hpp>
#include <amgcl/amg.hpp>
#include <amgcl/make_solver.hpp>
#include <amgcl/solver/runtime.hpp>
#include <amgcl/coarsening/runtime.hpp>
#include <amgcl/relaxation/runtime.hpp>
#include <amgcl/preconditioner/runtime.hpp>
#include <amgcl/solver/skyline_lu.hpp>
#include <amgcl/solver/lgmres.hpp>
#include <vf/hooks.hpp>
#include <vf/gen.hpp>
#include <vf/krylov.hpp>
#include <boost/property_tree/json_parser.hpp>
#include <sys/mman.h>
#include <unistd.h>
#include <omp.h>

using vf::Csr; using vf::J; using vf::Rng; using vf::Case; using vf::SolverCfg;
typedef amgcl::backend::builtin<double> B; typedef amgcl::backend::crs<double> M;
typedef amgcl::make_solver<amgcl::runtime::preconditioner<B>, amgcl::runtime::solver::wrapper<B>> Solver;
typedef boost::property_tree::ptree ptree;

//---------------------------------------------------------------------------
// read-only page buffers
//---------------------------------------------------------------------------
template <class T> struct RoBuf {
    T *p = nullptr; size_t n = 0, bytes = 0;
    RoBuf() {}
    explicit RoBuf(const std::vector<T> &v) { assign(v); }
    RoBuf(const RoBuf &) = delete; RoBuf &operator=(const RoBuf &) = delete;
    void assign(const std::vector<T> &v) { release(); n = v.size(); size_t pg = (size_t)sysconf(_SC_PAGESIZE); bytes = ((std::max<size_t>(1, n) * sizeof(T) + pg - 1) / pg) * pg;
        void *m = mmap(nullptr, bytes, PROT_READ | PROT_WRITE, MAP_PRIVATE | MAP_ANONYMOUS, -1, 0); if (m == MAP_FAILED) { perror("mmap"); exit(3); }
        p = static_cast<T*>(m); if (n) memcpy(p, v.data(), n * sizeof(T)); if (mprotect(p, bytes, PROT_READ)) { perror("mprotect"); exit(3); } }
    void release() { if (p) munmap(p, bytes); p = nullptr; }
    ~RoBuf() { release(); }
    amgcl::iterator_range<const T*> range() const { return amgcl::make_iterator_range((const T*)p, (const T*)p + n); }
    uint64_t digest() const { vf::Digest d; d.vec(p, n); return d.h; }
};
struct RoMatrix {   // user matrix in read-only pages, handed to amgcl as a tuple of ranges
    size_t n = 0; RoBuf<ptrdiff_t> ptr, col; RoBuf<double> val; uint64_t dg = 0;
    void assign(const Csr<double> &A) { n = A.n; ptr.assign(A.ptr); col.assign(A.col); val.assign(A.val); dg = digest(); }
    std::tuple<size_t, amgcl::iterator_range<const ptrdiff_t*>, amgcl::iterator_range<const ptrdiff_t*>, amgcl::iterator_range<const double*>> tuple() const { return std::make_tuple(n, ptr.range(), col.range(), val.range()); }
    uint64_t digest() const { vf::Digest d; d.pod(ptr.digest()); d.pod(col.digest()); d.pod(val.digest()); return d.h; }
};
static uint64_t digest_backend_matrix(const M &A) { vf::Digest d; d.pod(A.nrows); d.pod(A.ncols); d.vec(A.ptr, A.nrows + 1); d.vec(A.col, A.nnz); d.vec(A.val, A.nnz); return d.h; }

//---------------------------------------------------------------------------
// results and their comparison (bitwise; NaNs compare equal to NaNs whatever their payload)
//---------------------------------------------------------------------------
struct Result { bool threw = false; std::string what; size_t iters = 0; double res = 0; std::vector<double> x; };
static bool same_double(double a, double b) { if (std::isnan(a) && std::isnan(b)) return true; return memcmp(&a, &b, sizeof a) == 0; }
static std::string compare(const Result &a, const Result &b) {
    if (a.threw != b.threw) return a.threw ? "reused object threw (" + a.what + "), fresh object did not" : "fresh object threw (" + b.what + "), reused object did not";
    if (a.threw && a.what != b.what) return "different exception texts: '" + a.what + "' vs '" + b.what + "'";
    if (!a.threw && a.iters != b.iters) return "iteration counts differ: " + std::to_string(a.iters) + " vs " + std::to_string(b.iters);
    if (!a.threw && !same_double(a.res, b.res)) { char buf[96]; snprintf(buf, sizeof buf, "reported residuals differ: %.17g vs %.17g", a.res, b.res); return buf; }
    for (size_t i = 0; i < a.x.size(); ++i) if (!same_double(a.x[i], b.x[i])) { char buf[128]; snprintf(buf, sizeof buf, "x[%zu] differs: %.17g vs %.17g", i, a.x[i], b.x[i]); return buf; }
    return "";
}

//---------------------------------------------------------------------------
// configuration space: 12 (solver, side) pairs (+ LGMRES always_reset=false, exempt) x 6 preconditioners
//---------------------------------------------------------------------------
static const char *PRECONDS[6] = {"amg:smoothed_aggregation+spai0", "amg:ruge_stuben+gauss_seidel", "amg:aggregation+ilu0", "relaxation:chebyshev", "dummy", "nested:bicgstab(2)+amg"};
static void put_precond(ptree &p, int k, const std::string &root = "precond") {
    switch (k) {
    case 0: p.put(root + ".class", "amg"); p.put(root + ".coarsening.type", "smoothed_aggregation"); p.put(root + ".relax.type", "spai0"); p.put(root + ".coarse_enough", 40); break;
    case 1: p.put(root + ".class", "amg"); p.put(root + ".coarsening.type", "ruge_stuben"); p.put(root + ".relax.type", "gauss_seidel"); p.put(root + ".coarse_enough", 40); p.put(root + ".ncycle", 2); break;
    case 2: p.put(root + ".class", "amg"); p.put(root + ".coarsening.type", "aggregation"); p.put(root + ".relax.type", "ilu0"); p.put(root + ".coarse_enough", 40); p.put(root + ".npre", 2); p.put(root + ".direct_coarse", false); break;
    case 3: p.put(root + ".class", "relaxation"); p.put(root + ".type", "chebyshev"); break;
    case 4: p.put(root + ".class", "dummy"); break;
    default: p.put(root + ".class", "nested"); p.put(root + ".solver.type", "bicgstab"); p.put(root + ".solver.maxiter", 2); p.put(root + ".solver.tol", 1e-3); put_precond(p, 0, root + ".precond"); break;
    }
}
struct SolverVariant { SolverCfg cfg; bool lgmres_keep = false; };
static void put_solver(ptree &p, const SolverVariant &v, Rng &r, size_t maxiter, double tol) {
    p.put("solver.type", v.cfg.type); p.put("solver.maxiter", maxiter); p.put("solver.tol", tol); if (v.cfg.has_side) p.put("solver.pside", v.cfg.left ? "left" : "right");
    std::string t = v.cfg.type;
    if (t == "gmres" || t == "fgmres") p.put("solver.M", (int)r.pick(std::vector<int>{3, 5, 30}));
    if (t == "lgmres") { p.put("solver.M", (int)r.pick(std::vector<int>{3, 5, 30})); p.put("solver.K", (int)r.range(1, 3)); if (v.lgmres_keep) p.put("solver.always_reset", false); }
    if (t == "bicgstabl") { p.put("solver.L", (int)r.pick(std::vector<int>{1, 2, 4})); if (r.coin(0.3)) p.put("solver.delta", 1e-2); if (r.coin(0.3)) p.put("solver.convex", false); }
    if (t == "idrs") { p.put("solver.s", (int)r.range(1, 6)); if (r.coin()) p.put("solver.smoothing", true); if (r.coin(0.3)) p.put("solver.replacement", true); }
}

//---------------------------------------------------------------------------
// history scripts
//---------------------------------------------------------------------------
enum Kind { SOLVE, SOLVE_ZERO_RHS, SOLVE_CONVERGED_GUESS, SOLVE_BAD, SOLVE_ALT_MATRIX, SOLVE_SINGULAR_MATRIX, PRECOND_APPLY, PRECOND_APPLY_BAD, SOLVER_APPLY, REBUILD };
static const char *KNAME[] = {"solve", "solve-zero-rhs", "solve-converged-guess", "solve-bad-input", "solve-alt-matrix", "solve-singular-matrix", "precond-apply", "precond-apply-bad-input", "make_solver-apply", "rebuild"};
struct Step { Kind kind; int rhs = 0; int x0 = 0; int bad = 0; };

struct World {
    Csr<double> A, A2, A3, Azero; RoMatrix Aro, A2ro, A3ro;
    std::vector<std::vector<double>> F;       // rhs pool (values)
    std::vector<std::unique_ptr<RoBuf<double>>> Fro; std::vector<uint64_t> Fdg;
    std::vector<std::vector<double>> X0;      // initial guesses
    std::shared_ptr<M> A2b, Azb; uint64_t A2dg = 0, Azdg = 0;
    size_t n = 0;
    void add_rhs(const std::vector<double> &f) { F.push_back(f); Fro.emplace_back(new RoBuf<double>(f)); Fdg.push_back(Fro.back()->digest()); }
};
// rhs ids: 0..3 random, 4 zero, 5 NaN entry, 6 Inf entry, 7 huge (overflowing norms)
static void build_world(World &W, Rng &r, bool spd) {
    if (spd) { vf::GridSpec g; g.nx = (int)r.range(12, 20); g.ny = (int)r.range(10, 18); g.contrast = r.logu(1, 10); g.aniso = r.logu(0.2, 1); W.A = vf::grid_diffusion(g, r); }
    else W.A = vf::convdiff((int)r.range(12, 20), (int)r.range(10, 18), r.logu(0.2, 3), r);
    W.n = W.A.n; W.A2 = W.A; W.A3 = W.A; W.Azero = W.A;
    for (size_t i = 0; i < W.n; ++i) for (ptrdiff_t j = W.A.ptr[i]; j < W.A.ptr[i + 1]; ++j) { if ((size_t)W.A.col[j] == i) { W.A2.val[j] *= 1 + r.uni(0.0, 0.4); W.A3.val[j] *= 1 + r.uni(0.2, 0.8); } W.Azero.val[j] = 0.0; }
    W.Aro.assign(W.A); W.A2ro.assign(W.A2); W.A3ro.assign(W.A3);
    W.A2b = std::make_shared<M>(W.A2.tie()); W.Azb = std::make_shared<M>(W.Azero.tie()); W.A2dg = digest_backend_matrix(*W.A2b); W.Azdg = digest_backend_matrix(*W.Azb);
    for (int k = 0; k < 4; ++k) W.add_rhs(vf::random_vector(W.n, r));
    W.add_rhs(std::vector<double>(W.n, 0.0));
    { auto f = vf::random_vector(W.n, r); f[r.next() % W.n] = std::numeric_limits<double>::quiet_NaN(); W.add_rhs(f); }
    { auto f = vf::random_vector(W.n, r); f[r.next() % W.n] = std::numeric_limits<double>::infinity(); W.add_rhs(f); }
    { auto f = vf::random_vector(W.n, r); for (auto &v : f) v *= 1e306; W.add_rhs(f); }
    W.X0.push_back(std::vector<double>(W.n, 0.0)); W.X0.push_back(vf::random_vector(W.n, r)); { auto x = vf::random_vector(W.n, r); for (auto &v : x) v *= 50; W.X0.push_back(x); }
    { auto x = vf::random_vector(W.n, r); x[r.next() % W.n] = std::numeric_limits<double>::quiet_NaN(); W.X0.push_back(x); }    // id 3: NaN guess
}

static std::vector<Step> make_script(Rng &r, int len, bool is_amg, int forced_bad) {
    std::vector<Step> s;
    for (int k = 0; k < len; ++k) {
        Step st; double u = r.uni();
        if (k == 0) u = 0.0;                                   // every history starts with an ordinary solve
        if (u < 0.30) { st.kind = SOLVE; st.rhs = (int)r.range(0, 3); st.x0 = (int)r.range(0, 2); }
        else if (u < 0.38) { st.kind = SOLVE_ZERO_RHS; st.rhs = 4; st.x0 = (int)r.range(0, 2); }
        else if (u < 0.48) { st.kind = SOLVE_CONVERGED_GUESS; st.rhs = (int)r.range(0, 3); }
        else if (u < 0.62) { st.kind = SOLVE_BAD; st.bad = (int)r.range(0, 3); st.rhs = st.bad == 0 ? 5 : st.bad == 1 ? 6 : st.bad == 2 ? 7 : (int)r.range(0, 3); st.x0 = st.bad == 3 ? 3 : (int)r.range(0, 1); }
        else if (u < 0.70) { st.kind = SOLVE_ALT_MATRIX; st.rhs = (int)r.range(0, 3); st.x0 = (int)r.range(0, 1); }
        else if (u < 0.76) { st.kind = SOLVE_SINGULAR_MATRIX; st.rhs = (int)r.range(0, 3); st.x0 = (int)r.range(0, 1); }
        else if (u < 0.84) { st.kind = PRECOND_APPLY; st.rhs = (int)r.range(0, 3); }
        else if (u < 0.88) { st.kind = PRECOND_APPLY_BAD; st.rhs = (int)r.range(5, 6); }
        else if (u < 0.94 || !is_amg) { st.kind = SOLVER_APPLY; st.rhs = (int)r.range(0, 3); }
        else { st.kind = REBUILD; st.rhs = (int)r.range(0, 1); }
        s.push_back(st);
    }
    // every script contains one failing call of a kind that rotates with the script index (NaN rhs, Inf rhs, overflowing rhs, NaN guess, singular
    // alternative matrix) somewhere in the middle, and ends with an ordinary solve, so that each configuration sees each kind of failure followed by a solve
    if (len >= 3) { Step st; if (forced_bad <= 3) { st.kind = SOLVE_BAD; st.bad = forced_bad; st.rhs = forced_bad == 0 ? 5 : forced_bad == 1 ? 6 : forced_bad == 2 ? 7 : (int)r.range(0, 3); st.x0 = forced_bad == 3 ? 3 : (int)r.range(0, 1); }
        else { st.kind = SOLVE_SINGULAR_MATRIX; st.rhs = (int)r.range(0, 3); st.x0 = (int)r.range(0, 1); }
        s[1 + r.range(0, len - 3)] = st; Step last; last.kind = SOLVE; last.rhs = (int)r.range(0, 3); last.x0 = (int)r.range(0, 2); s[len - 1] = last; }
    return s;
}

// execute one step on an object; `conv` = previously converged (rhs id -> x) from the same object kind
static Result exec(Solver &S, const World &W, const Step &st, const std::vector<double> *guess) {
    Result R; auto f = W.Fro[st.rhs]->range();
    try {
        switch (st.kind) {
        case SOLVE: case SOLVE_ZERO_RHS: case SOLVE_BAD: R.x = W.X0[st.x0]; std::tie(R.iters, R.res) = S(f, R.x); break;
        case SOLVE_CONVERGED_GUESS: R.x = *guess; std::tie(R.iters, R.res) = S(f, R.x); break;
        case SOLVE_ALT_MATRIX: R.x = W.X0[st.x0]; std::tie(R.iters, R.res) = S(*W.A2b, f, R.x); break;
        case SOLVE_SINGULAR_MATRIX: R.x = W.X0[st.x0]; std::tie(R.iters, R.res) = S(*W.Azb, f, R.x); break;
        case PRECOND_APPLY: case PRECOND_APPLY_BAD: R.x.assign(W.n, 7.0); S.precond().apply(f, R.x); break;
        case SOLVER_APPLY: R.x.assign(W.n, 7.0); S.apply(f, R.x); break;
        case REBUILD: S.precond().rebuild((st.rhs ? W.A3ro : W.A2ro).tuple()); break;
        }
    } catch (const std::exception &e) { R.threw = true; R.what = e.what(); }
    return R;
}

static void sub_history() {
    // the 13 solver variants x 6 preconditioners are enumerated; scripts per configuration: quick 5 of length 6, thorough 400 of length <= 20
    std::vector<SolverVariant> SV; for (const SolverCfg &c : vf::SOLVER_CFGS) SV.push_back(SolverVariant{c, false}); SV.push_back(SolverVariant{vf::SOLVER_CFGS[7], true});   // lgmres, always_reset = false
    const int nscripts = (int)vf::tier(5, 400); long stride = vf::opt_int("stride", 1);
    for (size_t vi = 0; vi < SV.size(); ++vi) for (int pk = 0; pk < 6; ++pk) for (int si = 0; si < nscripts; ++si) {
        long idx = ((long)vi * 6 + pk) * nscripts + si;
        if (!vf::selected("history", idx) || idx % stride != 0) continue;
        Rng r(vf::case_seed("history", idx)); const SolverVariant &sv = SV[vi];
        bool spd = std::string(sv.cfg.type) == "cg" || pk == 3 || r.coin(0.4);        // CG and the Chebyshev preconditioner want an SPD matrix
        World W; build_world(W, r, spd);
        int len = vf::thorough() ? (int)r.range(4, 20) : 6; bool is_amg = pk <= 2;
        std::vector<Step> script = make_script(r, len, is_amg, si % 5);
        size_t maxiter = (size_t)r.pick(std::vector<int>{9, 25, 100}); double tol = 1e-8;
        ptree prm; put_precond(prm, pk); put_solver(prm, sv, r, maxiter, tol);
        std::string sname = vf::cfg_name(sv.cfg) + (sv.lgmres_keep ? "(always_reset=false)" : ""); std::string kinds; for (auto &st : script) { kinds += KNAME[st.kind]; kinds += ","; }
        Case c("history", idx, J().s("solver", sname).s("precond", PRECONDS[pk]).n("n", W.n).bl("spd", spd).n("maxiter", maxiter).n("len", len).s("script", kinds).n("threads", omp_get_max_threads()));
        try {
            Solver obj(W.Aro.tuple(), prm); uint64_t sysdg = digest_backend_matrix(obj.system_matrix());
            int rebuilt = -1;    // -1 none, else 0 -> A2, 1 -> A3
            // converged guesses: computed by a helper object (same configuration, tolerance 1e-11, not part of the history) so that the solver's own
            // start-up test (the same quantity, re-evaluated: <= 1e-8 ||f||) is met with a wide margin; accepted only if the helper reported <= tol / 4
            std::map<int, std::vector<double>> converged; std::set<int> tried;
            auto get_guess = [&](int rhs) -> const std::vector<double>* {
                if (!tried.count(rhs)) { tried.insert(rhs); try { ptree p2 = prm; p2.put("solver.tol", 1e-11); p2.put("solver.maxiter", 1000); Solver H(W.Aro.tuple(), p2); std::vector<double> x(W.n, 0.0); size_t it; double rs;
                        std::tie(it, rs) = H(W.Fro[rhs]->range(), x);
                        // independent evaluation of the quantity the solver tests at start-up (a recursively updated residual may be off, e.g. with the non-linear nested preconditioner)
                        vf::Residual<double> R = vf::residual_ld(W.A, W.F[rhs], x); double val = (double)(R.nr / R.nf);
                        if (sv.cfg.left && R.finite) { std::vector<double> z(W.n, 0.0); H.precond().apply(R.r, z); val = std::max(val, (double)(vf::norm2_ld(z) / R.nf)); }
                        if (std::isfinite(rs) && std::isfinite(val) && val <= tol / 4) converged[rhs] = x; } catch (const std::exception &) {} }
                auto it = converged.find(rhs); return it == converged.end() ? nullptr : &it->second; };
            for (size_t k = 0; k < script.size(); ++k) {
                Step st = script[k]; const std::string step = std::string(KNAME[st.kind]);
                const std::vector<double> *guess = nullptr;
                if (st.kind == SOLVE_CONVERGED_GUESS) { guess = rebuilt >= 0 ? nullptr : get_guess(st.rhs); if (!guess) { st.kind = SOLVE; st.x0 = 0; vf::obs_sum("converged_guess_unavailable"); } }
                Result a = exec(obj, W, st, guess);
                if (st.kind == REBUILD) { rebuilt = st.rhs; sysdg = digest_backend_matrix(obj.system_matrix());
                    c.check(!a.threw, "rebuild:exception", "rebuild threw on a valid matrix: " + a.what); continue; }
                // the same call on a freshly constructed object
                Result b; { Solver fresh(W.Aro.tuple(), prm); if (rebuilt >= 0) fresh.precond().rebuild((rebuilt ? W.A3ro : W.A2ro).tuple());
                    b = exec(fresh, W, st, guess); }
                std::string diff = compare(a, b);
                if (vf::opt_int("debug", 0)) fprintf(stderr, "  step %zu %-24s reused: threw=%d '%s' iters=%zu res=%g | fresh: threw=%d iters=%zu res=%g | %s\n", k, step.c_str(), (int)a.threw, a.what.c_str(), a.iters, a.res, (int)b.threw, b.iters, b.res, diff.c_str());
                if (sv.lgmres_keep) { vf::obs_sum("lgmres_keep_steps_exempt"); }      // documented exception: exercised, not compared
                else c.check(diff.empty(), sname + ":" + step + ":differs-from-fresh-object", "step " + std::to_string(k) + " (" + step + ") on the reused object differs from a freshly constructed object: " + diff,
                             J().n("step", k).s("kind", step).n("rhs", st.rhs).n("x0", st.x0).s("precond", PRECONDS[pk]));
                // inputs are never modified
                c.check(W.Fro[st.rhs]->digest() == W.Fdg[st.rhs], sname + ":rhs-modified", "right-hand side changed by the call", J().s("kind", step));
                c.check(W.Aro.digest() == W.Aro.dg && W.A2ro.digest() == W.A2ro.dg && W.A3ro.digest() == W.A3ro.dg, sname + ":user-matrix-modified", "user matrix arrays changed", J().s("kind", step));
                c.check(digest_backend_matrix(obj.system_matrix()) == sysdg, sname + ":system-matrix-modified", "the object's system matrix changed during a call", J().s("kind", step));
                c.check(digest_backend_matrix(*W.A2b) == W.A2dg && digest_backend_matrix(*W.Azb) == W.Azdg, sname + ":alt-matrix-modified", "matrix passed to operator()(A, rhs, x) changed", J().s("kind", step));
                // zero right-hand side -> zero vector in zero iterations
                if (st.kind == SOLVE_ZERO_RHS && !a.threw) { bool z = a.iters == 0; for (double v : a.x) if (v != 0.0) z = false; c.check(z, sname + ":zero-rhs", "zero right-hand side did not return the zero vector in zero iterations", J().n("iters", a.iters).n("x0", st.x0)); vf::obs_sum("zero_rhs_calls"); }
                // converged initial guess -> returned unchanged in zero iterations
                if (st.kind == SOLVE_CONVERGED_GUESS && !a.threw && !sv.lgmres_keep) { bool same = a.iters == 0; for (size_t i = 0; i < W.n && same; ++i) if (!(a.x[i] == (*guess)[i])) same = false;
                    c.check(same, sname + ":converged-guess", "an initial guess that already satisfies the tolerance was not returned unchanged in zero iterations", J().n("iters", a.iters).n("res", a.res)); vf::obs_sum("converged_guess_calls"); }
                if (a.threw) vf::obs_sum("steps_that_threw"); if (!a.threw && !std::isfinite(a.res)) vf::obs_sum("steps_with_nonfinite_result");
                vf::obs_sum("history_steps");
            }
            c.nontrivial();
        } catch (const std::exception &e) { c.fail("exception:history-setup", e.what()); }
        if (si == 0 && pk < 3) vf::sample("history", J().s("solver", sname).s("precond", PRECONDS[pk]).n("n", W.n).s("script", kinds));
    }
}

//---------------------------------------------------------------------------
// throwing: solver objects with a harness-side preconditioner that throws in the middle of a solve
//---------------------------------------------------------------------------
struct ThrowingJacobi {
    typedef B backend_type; typedef M matrix; std::shared_ptr<M> A; std::vector<double> dinv; mutable long count = 0; long throw_at = -1;
    template <class V1, class V2> void apply(const V1 &f, V2 &&x) const { if (++count == throw_at) throw std::runtime_error("harness preconditioner failure"); for (size_t i = 0; i < dinv.size(); ++i) x[i] = dinv[i] * f[i]; }
    const M &system_matrix() const { return *A; }
};
static void sub_throwing() {
    long N = vf::tier(60, 3000);
    for (long idx = 0; idx < N; ++idx) {
        if (!vf::selected("throwing", idx)) continue;
        Rng r(vf::case_seed("throwing", idx)); const SolverCfg &cfg = vf::SOLVER_CFGS[idx % 12]; SolverVariant sv{cfg, false};
        bool spd = std::string(cfg.type) == "cg" || r.coin(0.4); World W; build_world(W, r, spd);
        ptree full; put_solver(full, sv, r, (size_t)r.pick(std::vector<int>{9, 30}), 1e-8); ptree prm = full.get_child("solver");
        Case c("throwing", idx, J().s("solver", vf::cfg_name(cfg)).n("n", W.n).bl("spd", spd));
        try {
            ThrowingJacobi P; P.A = std::make_shared<M>(W.Aro.tuple()); P.dinv.resize(W.n); for (size_t i = 0; i < W.n; ++i) for (ptrdiff_t j = W.A.ptr[i]; j < W.A.ptr[i + 1]; ++j) if ((size_t)W.A.col[j] == i) P.dinv[i] = 1.0 / W.A.val[j];
            amgcl::runtime::solver::wrapper<B> obj(W.n, prm);
            int nsteps = (int)vf::tier(5, 10);
            for (int k = 0; k < nsteps; ++k) {
                int rhs = (int)r.range(0, 3), x0 = (int)r.range(0, 2); bool thrower = k > 0 && r.coin(0.4); long at = thrower ? r.range(1, 6) : -1;
                auto call = [&](amgcl::runtime::solver::wrapper<B> &S, ThrowingJacobi &Pc) { Result R; R.x = W.X0[x0]; Pc.count = 0; Pc.throw_at = at; auto f = W.Fro[rhs]->range();
                    try { std::tie(R.iters, R.res) = S(Pc, f, R.x); } catch (const std::exception &e) { R.threw = true; R.what = e.what(); } return R; };
                Result a = call(obj, P); ThrowingJacobi Pf = P; amgcl::runtime::solver::wrapper<B> fresh(W.n, prm); Result b = call(fresh, Pf);
                std::string diff = compare(a, b);
                c.check(diff.empty(), vf::cfg_name(cfg) + ":differs-from-fresh-object" + (thrower ? "-in-throwing-call" : ""), "call " + std::to_string(k) + " on the reused solver object differs from a fresh one: " + diff, J().n("step", k).bl("preconditioner_throws", thrower));
                c.check(W.Fro[rhs]->digest() == W.Fdg[rhs], vf::cfg_name(cfg) + ":rhs-modified", "right-hand side changed by the call");
                if (a.threw) vf::obs_sum("throwing_calls_that_threw"); vf::obs_sum("history_steps");
            }
            c.nontrivial();
        } catch (const std::exception &e) { c.fail("exception:throwing-setup", e.what()); }
    }
}

//---------------------------------------------------------------------------
// midsolve: the harness preconditioner throws on its k-th application with k chosen so that the failing call is aborted in the MIDDLE of a solve, after
// at least one complete restart cycle / BiCGStab(L) sweep / IDR(s) space (the application count of an unfaulted run of the same call is measured first).
// Every solver with restart or cycle state (gmres, fgmres, lgmres, bicgstabl, idrs; the others ride along) is configured with a short cycle and a weak
// (Jacobi) preconditioner so that solves run over many cycles; the aborted call is followed by ordinary solves compared bitwise with a fresh object.
// lgmres-toggle: one LGMRES object is used with always_reset = false (exempt), then prm.always_reset is switched to true: equality with a fresh
// always_reset = true object is demanded again from the first such call on.
//---------------------------------------------------------------------------
static void sub_midsolve() {
    long N = vf::tier(72, 2400);
    for (long idx = 0; idx < N; ++idx) {
        if (!vf::selected("midsolve", idx)) continue;
        Rng r(vf::case_seed("midsolve", idx)); const SolverCfg &cfg = vf::SOLVER_CFGS[idx % 12]; std::string t = cfg.type;
        bool spd = t == "cg" || r.coin(0.4); World W; build_world(W, r, spd);
        ptree prm; prm.put("type", t); prm.put("maxiter", 300); prm.put("tol", 1e-8); if (cfg.has_side) prm.put("pside", cfg.left ? "left" : "right");
        long cyc = 2;       // preconditioner applications in one restart cycle / sweep (upper estimate)
        if (t == "gmres" || t == "fgmres") { int Mr = (int)r.range(2, 5); prm.put("M", Mr); cyc = Mr + 2; }
        if (t == "lgmres") { int Mr = (int)r.range(2, 4), Kr = (int)r.range(1, 3); prm.put("M", Mr); prm.put("K", Kr); cyc = Mr + Kr + 2; }
        if (t == "bicgstabl") { int Lp = (int)r.pick(std::vector<int>{2, 3, 4}); prm.put("L", Lp); if (r.coin(0.4)) prm.put("delta", 1e-2); cyc = 2 * Lp + 2; }
        if (t == "idrs") { int sv = (int)r.range(2, 5); prm.put("s", sv); if (r.coin()) prm.put("smoothing", true); if (r.coin(0.3)) prm.put("replacement", true); cyc = sv + 2; }
        std::ostringstream ps; boost::property_tree::write_json(ps, prm, false);
        Case c("midsolve", idx, J().s("solver", vf::cfg_name(cfg)).n("n", W.n).bl("spd", spd).s("params", ps.str()));
        try {
            ThrowingJacobi P; P.A = std::make_shared<M>(W.Aro.tuple()); P.dinv.resize(W.n); for (size_t i = 0; i < W.n; ++i) for (ptrdiff_t j = W.A.ptr[i]; j < W.A.ptr[i + 1]; ++j) if ((size_t)W.A.col[j] == i) P.dinv[i] = 1.0 / W.A.val[j];
            amgcl::runtime::solver::wrapper<B> obj(W.n, prm);
            int nsteps = (int)vf::tier(5, 9); int aborted = 0;
            for (int k = 0; k < nsteps; ++k) {
                int rhs = (int)r.range(0, 3), x0 = (int)r.range(0, 2); bool want_throw = k == 1 || k == 3 || (k > 4 && r.coin(0.4)); long at = -1;
                auto call = [&](amgcl::runtime::solver::wrapper<B> &S, ThrowingJacobi &Pc, long throw_at) { Result R; R.x = W.X0[x0]; Pc.count = 0; Pc.throw_at = throw_at; auto f = W.Fro[rhs]->range();
                    try { std::tie(R.iters, R.res) = S(Pc, f, R.x); } catch (const std::exception &e) { R.threw = true; R.what = e.what(); } return R; };
                if (want_throw) {   // how many applications does the unfaulted call make?  (fresh object, not part of the history)
                    ThrowingJacobi Pm = P; amgcl::runtime::solver::wrapper<B> probe(W.n, prm); call(probe, Pm, -1); long T = Pm.count;
                    if (T >= 2 * cyc + 4) at = r.range(cyc + 2, std::min(T - 1, 6 * cyc)); else vf::obs_sum("midsolve_call_too_short_to_abort_after_a_cycle"); }
                Result a = call(obj, P, at); ThrowingJacobi Pf = P; amgcl::runtime::solver::wrapper<B> fresh(W.n, prm); Result b = call(fresh, Pf, at);
                std::string diff = compare(a, b);
                c.check(diff.empty(), vf::cfg_name(cfg) + ":differs-from-fresh-object" + (at > 0 ? "-in-aborted-call" : (aborted ? "-after-aborted-call" : "")), "call " + std::to_string(k) + " on the reused solver object differs from a fresh one: " + diff,
                        J().n("step", k).n("throw_at_application", at).n("aborted_calls_before", aborted));
                if (at > 0) c.check(a.threw, vf::cfg_name(cfg) + ":abort-not-observed", "the preconditioner was set to throw but the call returned normally (harness consistency)", J().n("throw_at_application", at));
                c.check(W.Fro[rhs]->digest() == W.Fdg[rhs], vf::cfg_name(cfg) + ":rhs-modified", "right-hand side changed by the call");
                if (a.threw) { ++aborted; vf::obs_sum("calls_aborted_mid_solve"); } vf::obs_sum("history_steps");
            }
            if (aborted) c.nontrivial();
        } catch (const std::exception &e) { c.fail("exception:midsolve-setup", e.what()); }
    }
    // LGMRES: always_reset false -> true between calls
    long N2 = vf::tier(24, 800);
    for (long idx = 0; idx < N2; ++idx) {
        if (!vf::selected("lgmres-toggle", idx)) continue;
        Rng r(vf::case_seed("lgmres-toggle", idx)); bool left = idx % 2; World W; build_world(W, r, r.coin(0.4));
        typedef amgcl::solver::lgmres<B> LG; LG::params prm; prm.M = (unsigned)r.range(2, 5); prm.K = (unsigned)r.range(1, 3); prm.maxiter = 300; prm.tol = 1e-8; prm.pside = left ? amgcl::preconditioner::side::left : amgcl::preconditioner::side::right;
        Case c("lgmres-toggle", idx, J().s("solver", left ? "lgmres-left" : "lgmres").n("n", W.n).n("M", prm.M).n("K", prm.K));
        try {
            ThrowingJacobi P; P.A = std::make_shared<M>(W.Aro.tuple()); P.dinv.resize(W.n); for (size_t i = 0; i < W.n; ++i) for (ptrdiff_t j = W.A.ptr[i]; j < W.A.ptr[i + 1]; ++j) if ((size_t)W.A.col[j] == i) P.dinv[i] = 1.0 / W.A.val[j];
            LG::params keep = prm; keep.always_reset = false; LG obj(W.n, keep);
            auto call = [&](LG &S, int rhs, int x0) { Result R; R.x = W.X0[x0]; P.count = 0; P.throw_at = -1; auto f = W.Fro[rhs]->range(); try { std::tie(R.iters, R.res) = S(P, f, R.x); } catch (const std::exception &e) { R.threw = true; R.what = e.what(); } return R; };
            int nkeep = (int)r.range(1, 3); for (int k = 0; k < nkeep; ++k) { call(obj, (int)r.range(0, 3), (int)r.range(0, 2)); vf::obs_sum("lgmres_keep_steps_exempt"); }
            obj.prm.always_reset = true;
            for (int k = 0; k < 3; ++k) { int rhs = (int)r.range(0, 3), x0 = (int)r.range(0, 2); Result a = call(obj, rhs, x0); LG fresh(W.n, prm); Result b = call(fresh, rhs, x0); std::string diff = compare(a, b);
                c.check(diff.empty(), std::string(left ? "lgmres-left" : "lgmres") + ":differs-from-fresh-object-after-always_reset-switched-on", "call " + std::to_string(k) + " after switching always_reset back to true differs from a fresh object: " + diff, J().n("step", k).n("calls_with_always_reset_false", nkeep));
                vf::obs_sum("history_steps"); }
            c.nontrivial();
        } catch (const std::exception &e) { c.fail("exception:lgmres-toggle-setup", e.what()); }
    }
}

//---------------------------------------------------------------------------
// direct: skyline_lu histories (scratch vector y)
//---------------------------------------------------------------------------
static void sub_direct() {
    long N = vf::tier(40, 2000);
    for (long idx = 0; idx < N; ++idx) {
        if (!vf::selected("direct", idx)) continue;
        Rng r(vf::case_seed("direct", idx)); World W; build_world(W, r, r.coin());
        Case c("direct", idx, J().s("solver", "skyline_lu").n("n", W.n).n("nnz", W.A.nnz()));
        try {
            amgcl::solver::skyline_lu<double> obj(W.Aro.tuple());
            int nsteps = (int)vf::tier(6, 16);
            for (int k = 0; k < nsteps; ++k) {
                int rhs = k == 0 ? 0 : (int)r.range(0, 7);
                auto call = [&](amgcl::solver::skyline_lu<double> &S) { Result R; R.x.assign(W.n, 3.0); auto f = W.Fro[rhs]->range(); try { S(f, R.x); } catch (const std::exception &e) { R.threw = true; R.what = e.what(); } return R; };
                Result a = call(obj); amgcl::solver::skyline_lu<double> fresh(W.Aro.tuple()); Result b = call(fresh);
                std::string diff = compare(a, b);
                c.check(diff.empty(), "skyline_lu:differs-from-fresh-object", "solve " + std::to_string(k) + " on the reused factorisation differs from a fresh one: " + diff, J().n("step", k).n("rhs", rhs));
                c.check(W.Fro[rhs]->digest() == W.Fdg[rhs] && W.Aro.digest() == W.Aro.dg, "skyline_lu:input-modified", "right-hand side or matrix changed by the call");
                if (rhs == 4) { bool z = true; for (double v : a.x) if (v != 0.0) z = false; c.check(z, "skyline_lu:zero-rhs", "zero right-hand side did not give the zero vector"); }
                vf::obs_sum("history_steps");
            }
            c.nontrivial();
        } catch (const std::exception &e) { c.fail("exception:direct-setup", e.what()); }
    }
}

int main(int argc, char **argv) {
    vf::init(argc, argv);
    vf::obs_add("threads_seen", std::to_string(omp_get_max_threads()));
    if (vf::sub_enabled("history")) sub_history();
    if (vf::sub_enabled("throwing")) sub_throwing();
    if (vf::sub_enabled("midsolve") || vf::sub_enabled("lgmres-toggle")) sub_midsolve();
    if (vf::sub_enabled("direct")) sub_direct();
    return vf::finish();
}
