// C16 -- direct and dense kernels are exact: skyline LU, small inverse, QR, static_matrix, Cuthill-McKee
// (DESIGN.md 5/C16).  References are dense complex long double (Eigen) or exact rationals, written from the
// mathematical definitions; tolerances are the textbook backward-error bounds quoted at each oracle.
#include <boost/rational.hpp>
typedef boost::rational<long long> Q;
namespace std { inline Q abs(const Q &q) { return q < 0 ? -q : q; } }
#include <amgcl/backend/builtin.hpp>
namespace amgcl { namespace math { template <> struct norm_impl<Q> { static Q get(const Q &q) { return q < 0 ? -q : q; } }; } }
#include <amgcl/value_type/static_matrix.hpp>
#include <amgcl/value_type/complex.hpp>
#include <amgcl/adapter/crs_tuple.hpp>
#include <amgcl/solver/skyline_lu.hpp>
#include <amgcl/reorder/cuthill_mckee.hpp>
#include <amgcl/detail/inverse.hpp>
#include <amgcl/detail/qr.hpp>
#include <Eigen/Dense>
#include <Eigen/SparseLU>
#include <amgcl/solver/eigen.hpp>
#include <vf/hooks.hpp>
#include <vf/dense.hpp>
#include <omp.h>

using namespace amgcl;
using vf::J; using vf::Rng; using vf::Case; using vf::LZ; using vf::LZV;
typedef std::complex<double> Z; typedef std::complex<long double> ZL;
static long STRIDE = 1;
static bool sel(const char *sub, long idx) { return (STRIDE <= 1 || idx % STRIDE == 0) && vf::selected(sub, idx); }

//---------------------------------------------------------------------------
// value-type traits: block size, scalar type, conversion to / from the dense scalar system
//---------------------------------------------------------------------------
template <class V> struct VT;
template <> struct VT<double> { static const int B = 1; static const bool cplx = false; typedef double S; typedef double R; static const char* name() { return "double"; }
    static double make(const LZ &A, int i, int j) { return (double)A(i, j).real(); } static ZL rget(const double &v, int) { return ZL(v, 0); } static void rset(double &v, int, ZL x) { v = (double)x.real(); } };
template <> struct VT<float> { static const int B = 1; static const bool cplx = false; typedef float S; typedef float R; static const char* name() { return "float"; }
    static float make(const LZ &A, int i, int j) { return (float)A(i, j).real(); } static ZL rget(const float &v, int) { return ZL(v, 0); } static void rset(float &v, int, ZL x) { v = (float)x.real(); } };
template <> struct VT<Z> { static const int B = 1; static const bool cplx = true; typedef Z S; typedef Z R; static const char* name() { return "complex"; }
    static Z make(const LZ &A, int i, int j) { return Z((double)A(i, j).real(), (double)A(i, j).imag()); } static ZL rget(const Z &v, int) { return ZL(v.real(), v.imag()); } static void rset(Z &v, int, ZL x) { v = Z((double)x.real(), (double)x.imag()); } };
template <int N> struct VT<static_matrix<double, N, N>> { static const int B = N; static const bool cplx = false; typedef double S; typedef static_matrix<double, N, 1> R; static const char* name() { static std::string s = "block" + std::to_string(N); return s.c_str(); }
    static static_matrix<double, N, N> make(const LZ &A, int i, int j) { static_matrix<double, N, N> b; for (int a = 0; a < N; ++a) for (int c = 0; c < N; ++c) b(a, c) = (double)A(i * N + a, j * N + c).real(); return b; }
    static ZL rget(const R &v, int a) { return ZL(v(a), 0); } static void rset(R &v, int a, ZL x) { v(a) = (double)x.real(); } };

static long double norm_inf(const LZ &A) { long double m = 0; for (int i = 0; i < A.rows(); ++i) { long double s = 0; for (int j = 0; j < A.cols(); ++j) s += std::abs(A(i, j)); m = std::max(m, s); } return m; }
static long double vnorm_inf(const LZV &v) { long double m = 0; for (int i = 0; i < v.size(); ++i) m = std::max(m, (long double)std::abs(v(i))); return m; }
static long double fro(const LZ &A) { long double s = 0; for (int i = 0; i < A.rows(); ++i) for (int j = 0; j < A.cols(); ++j) s += std::norm(A(i, j)); return std::sqrt(s); }

//---------------------------------------------------------------------------
// dense system generator.  pat: n x n block pattern (diagonal always present).
// cls 0: strictly row diagonally dominant, 1: strictly column diagonally dominant, 2: Hermitian positive definite
// (symmetrised pattern, Hermitian values, real positive dominant diagonal).  Values are rounded to the scalar
// type S before the dominant diagonal is computed, so the dense matrix is exactly what the solver sees.
//---------------------------------------------------------------------------
template <class V> LZ gen_dense(int n, std::vector<char> &pat, int cls, Rng &r, double dom = 1.25) {
    const int B = VT<V>::B, N = n * B; typedef typename VT<V>::S S; LZ A = LZ::Zero(N, N);
    if (cls == 2) for (int i = 0; i < n; ++i) for (int j = 0; j < n; ++j) if (pat[i * n + j]) pat[j * n + i] = 1;
    for (int i = 0; i < n; ++i) pat[i * n + i] = 1;
    auto rnd = [&]() -> ZL { double mag = r.coin(0.2) ? r.logu(1e-3, 1e2) : r.uni(0.1, 1.0); double re = mag * (r.coin() ? 1 : -1), im = VT<V>::cplx ? r.uni(-1, 1) * mag : 0.0;
        if (sizeof(typename math::scalar_of<S>::type) == 4) { re = (float)re; im = (float)im; } return ZL(re, im); };
    for (int i = 0; i < N; ++i) for (int j = 0; j < N; ++j) { if (i == j || !pat[(i / B) * n + j / B]) continue; if (cls == 2 && j < i) { A(i, j) = std::conj(A(j, i)); continue; } if (B > 1 && r.coin(0.15)) continue; A(i, j) = rnd(); }
    for (int i = 0; i < N; ++i) { long double s = 0; for (int j = 0; j < N; ++j) if (j != i) s += (cls == 1 ? std::abs(A(j, i)) : std::abs(A(i, j)));
        long double d = (s + 0.1L) * dom; ZL dv; if (cls == 2) dv = ZL(d, 0); else if (VT<V>::cplx) dv = std::polar<long double>(d, r.uni(0, 6.2831853)); else dv = ZL(r.coin(0.2) ? -d : d, 0);
        if (sizeof(typename math::scalar_of<S>::type) == 4) dv = ZL((float)dv.real() * 1.0001f, (float)dv.imag()); else dv = ZL((double)dv.real(), (double)dv.imag());
        A(i, i) = dv; }
    // validate the generator (harness self-check)
    for (int i = 0; i < N; ++i) { long double s = 0; for (int j = 0; j < N; ++j) if (j != i) s += (cls == 1 ? std::abs(A(j, i)) : std::abs(A(i, j))); if (!(std::abs(A(i, i)) > s)) { fprintf(stderr, "generator: matrix not diagonally dominant\n"); exit(3); } }
    if (cls == 2) for (int i = 0; i < N; ++i) for (int j = 0; j < N; ++j) if (A(i, j) != std::conj(A(j, i))) { fprintf(stderr, "generator: matrix not Hermitian\n"); exit(3); }
    return A;
}
// CRS with value type V from the dense system (entries of present blocks; optional shuffled rows / explicit zero blocks)
template <class V> struct Crs { size_t n; std::vector<ptrdiff_t> ptr, col; std::vector<V> val; };
template <class V> Crs<V> pack(int n, const std::vector<char> &pat, const LZ &A, Rng &r, bool shuffle, bool explicit_zeros) {
    Crs<V> C; C.n = n; C.ptr.push_back(0);
    for (int i = 0; i < n; ++i) { std::vector<int> cols; for (int j = 0; j < n; ++j) if (pat[i * n + j] || (explicit_zeros && r.coin(0.2))) cols.push_back(j); if (shuffle) r.shuffle(cols);
        for (int j : cols) { C.col.push_back(j); C.val.push_back(VT<V>::make(A, i, j)); } C.ptr.push_back(C.col.size()); }
    return C;
}
static bool is_perm(const std::vector<long> &p) { std::vector<char> s(p.size(), 0); for (long x : p) { if (x < 0 || (size_t)x >= p.size() || s[x]) return false; s[x] = 1; } return true; }

// Backward-stability oracle.  LU without pivoting: (A + dA) x^ = f with |dA| <= gamma_{3N} |L^||U^| (Higham, ASNA 2nd ed., Thm 9.4);
// for A diagonally dominant by rows or columns || |L||U| ||_inf <= (2N-1) ||A||_inf (Thm 9.9 / Lemma 9.8); for Hermitian positive
// definite A, || |R^H||R| ||_2 <= N ||A||_2 (10.7), hence <= N^1.5 ||A||_inf.  skyline_lu multiplies by the rounded reciprocal of
// the pivot instead of dividing (one more rounding per entry) and complex arithmetic has constants up to 2*sqrt(2): factor 4.
// Block values: the pivot blocks are inverted explicitly (GEPP inverse), which multiplies the bound by the condition number of
// the pivot blocks (Higham Thm 13.6 ff.); Schur complements of a matrix that is dominant with margin mu = min_i(|a_ii| - sum)
// keep that margin and have diagonal <= 2 max|a_ii|, so kappa_inf(pivot block) <= 4 max|a_ii| / mu =: kblk.
//   eta = ||f - A x^||_inf / (||A||_inf ||x^||_inf + ||f||_inf) <= 4 (3N+2) eps g kblk,   g = max(2N-1, N^1.5)
template <class V> double eta_bound(int N, const LZ &A) {
    double eps = vf::eps_of<typename VT<V>::S>::get(); double g = std::max(2.0 * N - 1, std::pow((double)N, 1.5)); double kblk = 1;
    if (VT<V>::B > 1) { long double mu = 1e300L, dm = 0; for (int i = 0; i < N; ++i) { long double sr = 0, sc = 0; for (int j = 0; j < N; ++j) if (j != i) { sr += std::abs(A(i, j)); sc += std::abs(A(j, i)); }
            long double d = std::abs(A(i, i)); dm = std::max(dm, d); mu = std::min(mu, std::max(d - sr, d - sc)); } kblk = (double)(4 * dm / mu); if (!(kblk >= 1)) kblk = 1; }
    return 4.0 * (3 * N + 2) * eps * g * kblk;
}

template <class V> void solve_and_check(Case &c, const std::string &what, int n, const std::vector<char> &pat, const LZ &A, Rng &r, bool shuffle, bool zeros, bool via_crs) {
    const int B = VT<V>::B, N = n * B; typedef typename VT<V>::R R;
    Crs<V> C = pack<V>(n, pat, A, r, shuffle, zeros);
    std::vector<R> f(n), x(n); LZV fd(N);
    for (int i = 0; i < n; ++i) for (int a = 0; a < B; ++a) { ZL v(r.uni(-1, 1), VT<V>::cplx ? r.uni(-1, 1) : 0.0); VT<V>::rset(f[i], a, v); fd(i * B + a) = VT<V>::rget(f[i], a); VT<V>::rset(x[i], a, ZL(777, 0)); }
    try {
        std::vector<long> perm;
        // solve history on one object: f, another right-hand side, f again (the factorisation and the work vector are reused)
        std::vector<R> f2(n), x2(n), x3(n); LZV f2d(N); for (int i = 0; i < n; ++i) for (int a = 0; a < B; ++a) { ZL v(r.uni(-1, 1), VT<V>::cplx ? r.uni(-1, 1) : 0.0); VT<V>::rset(f2[i], a, v); f2d(i * B + a) = VT<V>::rget(f2[i], a); VT<V>::rset(x2[i], a, ZL(555, 0)); VT<V>::rset(x3[i], a, ZL(333, 0)); }
        auto history = [&](auto &S) { S(f, x); S(f2, x2); S(f, x3); for (int p : amgcl::verif::access::perm(S)) perm.push_back(p); };
        if (via_crs) { backend::crs<V> M(std::tie(C.n, C.ptr, C.col, C.val)); solver::skyline_lu<V> S(M); history(S); }
        else { solver::skyline_lu<V> S(std::tie(C.n, C.ptr, C.col, C.val)); history(S); }
        { bool same = true; for (int i = 0; i < n; ++i) for (int a = 0; a < B; ++a) if (VT<V>::rget(x[i], a) != VT<V>::rget(x3[i], a)) same = false; c.check(same, "skyline_lu:reuse:repeated-solve-differs", what + ": solving the same right-hand side again on the same object gives a different result");
          LZV x2d(N); for (int i = 0; i < n; ++i) for (int a = 0; a < B; ++a) x2d(i * B + a) = VT<V>::rget(x2[i], a); LZV r2 = f2d - A * x2d;
          c.check_le((double)(vnorm_inf(r2) / (norm_inf(A) * vnorm_inf(x2d) + vnorm_inf(f2d))), eta_bound<V>(N, A), "skyline_lu:reuse:second-solve:" + std::string(VT<V>::name()), what + ": second solve on the same object exceeds the backward error bound"); }
        c.check(is_perm(perm), "skyline_lu:perm-not-permutation", "internal ordering of skyline_lu is not a permutation");
        LZV xd(N); for (int i = 0; i < n; ++i) for (int a = 0; a < B; ++a) xd(i * B + a) = VT<V>::rget(x[i], a);
        LZV res = fd - A * xd; long double eta = vnorm_inf(res) / (norm_inf(A) * vnorm_inf(xd) + vnorm_inf(fd)); double bound = eta_bound<V>(N, A);
        c.check_le((double)eta, bound, "skyline_lu:backward-error:" + std::string(VT<V>::name()), what + ": normwise backward error of the skyline LU solve exceeds the no-pivoting LU bound");
        // forward error against the dense partial-pivoting solve: <= 2 kappa_inf(A) * bound (first order perturbation theory, valid for kappa*bound < 1/2)
        LZV xr = A.partialPivLu().solve(fd); LZ Ai = A.partialPivLu().inverse(); long double kappa = norm_inf(A) * norm_inf(Ai);
        if (kappa * bound < 0.25) { LZV dx = xd - xr; c.check_le((double)(vnorm_inf(dx) / vnorm_inf(xr)), (double)(2 * kappa * bound), "skyline_lu:forward-error:" + std::string(VT<V>::name()), what + ": solution differs from the dense long double partial-pivoting solve by more than kappa * backward bound"); }
        vf::obs_max(std::string("max_eta_over_eps_") + VT<V>::name(), (double)eta / vf::eps_of<typename VT<V>::S>::get());
    } catch (const std::exception &e) { c.fail("skyline_lu:exception", what + ": " + e.what() + " on a matrix that needs no pivoting (" + VT<V>::name() + ")"); }
}

//---------------------------------------------------------------------------
// skyline_exhaustive: all 2^12 off-diagonal patterns of 4x4 matrices x {row-dd, col-dd, HPD} x {double, complex, 2x2 blocks}
//---------------------------------------------------------------------------
static std::vector<char> pat_from_mask(int n, uint64_t mask) { std::vector<char> p(n * n, 0); int k = 0; for (int i = 0; i < n; ++i) for (int j = 0; j < n; ++j) { if (i == j) { p[i * n + j] = 1; continue; } if (mask >> k & 1) p[i * n + j] = 1; ++k; } return p; }
static void sub_skyline_exhaustive() {
    const int n = 4; const uint64_t NM = 1ULL << 12, BATCH = 32; long idx = 0;
    for (uint64_t m0 = 0; m0 < NM; m0 += BATCH, ++idx) {
        if (!sel("skyline_exhaustive", idx)) continue;
        Case c("skyline_exhaustive", idx, J().n("n", n).n("mask_from", m0).n("mask_to", m0 + BATCH)); Rng r(vf::case_seed("skyline_exhaustive", idx));
        for (uint64_t m = m0; m < m0 + BATCH; ++m) for (int cls = 0; cls < 3; ++cls) {
            std::string w = "mask " + std::to_string(m) + " class " + std::to_string(cls);
            { std::vector<char> p = pat_from_mask(n, m); LZ A = gen_dense<double>(n, p, cls, r); solve_and_check<double>(c, w, n, p, A, r, false, false, false); }
            { std::vector<char> p = pat_from_mask(n, m); LZ A = gen_dense<Z>(n, p, cls, r); solve_and_check<Z>(c, w, n, p, A, r, false, false, false); }
            { typedef static_matrix<double, 2, 2> Bk; std::vector<char> p = pat_from_mask(n, m); LZ A = gen_dense<Bk>(n, p, cls, r); solve_and_check<Bk>(c, w, n, p, A, r, false, false, false); }
            c.nontrivial();
        }
    }
    vf::obs_set("skyline_exhaustive_space", "all 4096 off-diagonal patterns of 4x4 matrices x {row-dd, column-dd, Hermitian positive definite} x {double, complex, 2x2 block}");
}

//---------------------------------------------------------------------------
// skyline_random: up to 40 x 40 (60 thorough), pattern families incl. disconnected and structurally non-symmetric
//---------------------------------------------------------------------------
static std::vector<char> random_pattern(int n, int fam, Rng &r, std::string &name) {
    std::vector<char> p(n * n, 0);
    auto set = [&](int i, int j) { p[i * n + j] = 1; };
    switch (fam) {
        case 0: { name = "random-directed"; double d = r.pick(std::vector<double>{0.05, 0.15, 0.4}); for (int i = 0; i < n; ++i) for (int j = 0; j < n; ++j) if (i != j && r.coin(d)) set(i, j); break; }
        case 1: { name = "random-symmetric"; double d = r.pick(std::vector<double>{0.05, 0.15, 0.4}); for (int i = 0; i < n; ++i) for (int j = i + 1; j < n; ++j) if (r.coin(d)) { set(i, j); set(j, i); } break; }
        case 2: { name = "disconnected"; int k = (int)r.range(2, 5); std::vector<int> comp(n); for (auto &x : comp) x = (int)r.range(0, k); // vertices labelled at random => components interleave; label k = isolated
                  for (int i = 0; i < n; ++i) for (int j = 0; j < n; ++j) if (i != j && comp[i] == comp[j] && comp[i] < k && r.coin(0.3)) set(i, j); break; }
        case 3: { name = "upper-only"; for (int i = 0; i < n; ++i) for (int j = i + 1; j < n; ++j) if (r.coin(0.25)) set(i, j); break; }
        case 4: { name = "lower-only"; for (int i = 0; i < n; ++i) for (int j = 0; j < i; ++j) if (r.coin(0.25)) set(i, j); break; }
        case 5: { name = "arrow"; int h = (int)r.range(0, n - 1); for (int i = 0; i < n; ++i) if (i != h) { if (r.coin(0.8)) set(i, h); if (r.coin(0.8)) set(h, i); } break; }
        case 6: { name = "grid"; int nx = std::max(1, (int)std::sqrt((double)n)); for (int i = 0; i < n; ++i) { if ((i + 1) % nx && i + 1 < n) { set(i, i + 1); set(i + 1, i); } if (i + nx < n) { set(i, i + nx); set(i + nx, i); } } break; }
        case 7: { name = "one-way-cycle"; std::vector<int> o(n); std::iota(o.begin(), o.end(), 0); r.shuffle(o); for (int i = 0; i < n; ++i) if (n > 1) set(o[i], o[(i + 1) % n]); break; }
        default: { name = "dense"; for (int i = 0; i < n; ++i) for (int j = 0; j < n; ++j) if (i != j) set(i, j); }
    }
    return p;
}
static void sub_skyline_random() {
    long N = vf::tier(1500, 30000);
    for (long idx = 0; idx < N; ++idx) {
        if (!sel("skyline_random", idx)) continue;
        Rng r(vf::case_seed("skyline_random", idx));
        int vt = idx % 6, fam = (idx / 6) % 9, cls = (int)r.range(0, 2); int nmax = vf::tier(40, 60); int n = r.coin(0.1) ? (int)r.range(1, 3) : (int)r.range(1, nmax);
        if (vt >= 4) n = std::max(1, n / (vt == 4 ? 2 : 3)); if (fam == 8) n = std::min(n, 20);
        bool shuffle = r.coin(0.3), zeros = r.coin(0.2), via_crs = r.coin(0.5); std::string fname; std::vector<char> p = random_pattern(n, fam, r, fname);
        static const char *tn[] = {"double", "complex", "float", "double", "block2", "block3"};
        Case c("skyline_random", idx, J().s("type", tn[vt]).s("family", fname).n("cls", cls).n("n", n).bl("shuffled_rows", shuffle).bl("explicit_zeros", zeros).bl("via_crs", via_crs).n("threads", omp_get_max_threads()));
        switch (vt) {
            case 0: case 3: { LZ A = gen_dense<double>(n, p, cls, r); solve_and_check<double>(c, fname, n, p, A, r, shuffle, zeros, via_crs); break; }
            case 1: { LZ A = gen_dense<Z>(n, p, cls, r); solve_and_check<Z>(c, fname, n, p, A, r, shuffle, zeros, via_crs); break; }
            case 2: { LZ A = gen_dense<float>(n, p, cls, r); solve_and_check<float>(c, fname, n, p, A, r, shuffle, zeros, via_crs); break; }
            case 4: { typedef static_matrix<double, 2, 2> Bk; LZ A = gen_dense<Bk>(n, p, cls, r); solve_and_check<Bk>(c, fname, n, p, A, r, shuffle, zeros, via_crs); break; }
            default: { typedef static_matrix<double, 3, 3> Bk; LZ A = gen_dense<Bk>(n, p, cls, r); solve_and_check<Bk>(c, fname, n, p, A, r, shuffle, zeros, via_crs); }
        }
        // the coarse-level entry point of the builtin backend (create_solver) on the same kind of matrix
        if (vt == 3) { std::vector<char> p2 = p; LZ A = gen_dense<double>(n, p2, cls, r); Crs<double> C = pack<double>(n, p2, A, r, false, false);
            try { auto M = std::make_shared<backend::crs<double>>(std::tie(C.n, C.ptr, C.col, C.val)); auto S = backend::builtin<double>::create_solver(M, backend::builtin<double>::params());
                backend::numa_vector<double> f(n), x(n); LZV fd(n); for (int i = 0; i < n; ++i) { f[i] = r.uni(-1, 1); fd(i) = f[i]; x[i] = 777; } (*S)(f, x); LZV xd(n); for (int i = 0; i < n; ++i) xd(i) = x[i];
                LZV res = fd - A * xd; c.check_le((double)(vnorm_inf(res) / (norm_inf(A) * vnorm_inf(xd) + vnorm_inf(fd))), eta_bound<double>(n, A), "builtin:create_solver:backward-error", "coarse direct solver of the builtin backend exceeds the backward error bound");
            } catch (const std::exception &e) { c.fail("builtin:create_solver:exception", e.what()); } }
        int off = 0; for (int i = 0; i < n; ++i) for (int j = 0; j < n; ++j) if (i != j && p[i * n + j]) ++off;
        if (off) c.nontrivial();
        vf::sample("skyline_random", J().s("type", tn[vt]).s("family", fname).n("n", n).n("offdiag_blocks", off).n("cls", cls));
    }
}

//---------------------------------------------------------------------------
// exact arithmetic: rationals (skyline_exact) and dyadic integers in double (skyline_dyadic)
// Reference: Gaussian elimination without pivoting on P A P^T in exact rationals, from the definition: the pivots
// are det_k / det_{k-1}; the factorisation exists iff every leading principal minor is non-zero.
//---------------------------------------------------------------------------
typedef std::vector<std::vector<Q>> QM;
// returns index of the first zero pivot of P A P^T (-1 when none); piv receives the pivots before it
static int exact_pivots(const QM &A, const std::vector<int> &perm, std::vector<Q> &piv) {
    int n = (int)A.size(); QM M(n, std::vector<Q>(n)); for (int i = 0; i < n; ++i) for (int j = 0; j < n; ++j) M[i][j] = A[perm[i]][perm[j]];
    piv.clear();
    for (int k = 0; k < n; ++k) { if (M[k][k] == Q(0)) return k; piv.push_back(M[k][k]);
        for (int i = k + 1; i < n; ++i) { Q l = M[i][k] / M[k][k]; if (l == Q(0)) continue; for (int j = k; j < n; ++j) M[i][j] -= l * M[k][j]; } }
    return -1;
}
static bool pow2(const Q &q) { long long a = q.numerator() < 0 ? -q.numerator() : q.numerator(), b = q.denominator(); return a > 0 && (a & (a - 1)) == 0 && (b & (b - 1)) == 0; }
struct IntSys { int n; std::vector<ptrdiff_t> ptr, col; std::vector<long long> val; QM A; };
static IntSys int_system(int n, uint64_t mask, bool use_mask, double dens, Rng &r, bool dyadic_diag) {
    IntSys S; S.n = n; S.A.assign(n, std::vector<Q>(n, Q(0))); S.ptr.push_back(0); int k = 0;
    for (int i = 0; i < n; ++i) { for (int j = 0; j < n; ++j) { long long v = 0;
            if (i == j) { v = dyadic_diag ? r.pick(std::vector<long long>{1, 2, 4, -1, -2, 0}) : r.range(-3, 3); if (r.coin(0.08)) v = 0; }
            else { bool on = use_mask ? (mask >> k & 1) : r.coin(dens); ++k; if (on) { v = r.range(1, 2); if (r.coin()) v = -v; } }
            bool store = v != 0 || (i == j && r.coin(0.5));     // a zero diagonal is sometimes stored explicitly, sometimes absent
            if (store) { S.col.push_back(j); S.val.push_back(v); S.A[i][j] = Q(v); } }
        S.ptr.push_back(S.col.size()); }
    return S;
}
static void exact_case(Case &c, const IntSys &S, Rng &r, bool rational) {
    int n = S.n; std::vector<int> perm(n, -7);
    { std::vector<double> one(S.val.size(), 1.0); size_t nn = n; reorder::cuthill_mckee<false>::get(std::tie(nn, S.ptr, S.col, one), perm); }
    { std::vector<long> pl(perm.begin(), perm.end()); if (!c.check(is_perm(pl), "cuthill_mckee:not-a-permutation", "ordering used by skyline_lu is not a permutation")) return; }
    std::vector<Q> piv; int zp = exact_pivots(S.A, perm, piv);
    std::vector<long long> fi(n); for (auto &v : fi) v = r.range(-4, 4);
    if (rational) {
        std::vector<Q> val(S.val.begin(), S.val.end()), f(fi.begin(), fi.end()), x(n, Q(777)); size_t nn = n; bool threw = false; std::string msg;
        try { backend::crs<Q> M(std::tie(nn, S.ptr, S.col, val)); solver::skyline_lu<Q> L(M); L(f, x); } catch (const std::exception &e) { threw = true; msg = e.what(); }
        if (zp >= 0) { c.check(threw, "skyline_lu:zero-pivot-not-reported:rational", "a leading principal minor of the reordered matrix is zero but no exception was thrown", J().n("n", n).n("zero_pivot_at", zp)); vf::obs_sum("exact_zero_pivot_cases"); }
        else { if (!c.check(!threw, "skyline_lu:exception:rational", "exception on a matrix whose reordered leading minors are all non-zero: " + msg, J().n("n", n))) return;
            bool ok = true; for (int i = 0; i < n && ok; ++i) { Q s = f[i]; for (int j = 0; j < n; ++j) s -= S.A[i][j] * x[j]; if (s != Q(0)) ok = false; }
            c.check(ok, "skyline_lu:inexact:rational", "skyline LU in exact rational arithmetic does not solve the system exactly", J().n("n", n)); vf::obs_sum("exact_solved_cases"); }
    } else {
        // double arithmetic is exact when every pivot is +-2^k (their reciprocals and all intermediate values are dyadic rationals of small size)
        for (auto &p : piv) if (!pow2(p)) { fprintf(stderr, "dyadic filter inconsistency\n"); exit(3); }
        std::vector<double> val(S.val.begin(), S.val.end()), f(fi.begin(), fi.end()), x(n, 777.0); size_t nn = n; bool threw = false; std::string msg;
        try { solver::skyline_lu<double> L(std::tie(nn, S.ptr, S.col, val)); L(f, x); } catch (const std::exception &e) { threw = true; msg = e.what(); }
        if (zp >= 0) { c.check(threw, "skyline_lu:zero-pivot-not-reported:double", "an exactly zero pivot (dyadic data, exact arithmetic) was not reported by an exception", J().n("n", n).n("zero_pivot_at", zp)); vf::obs_sum("exact_zero_pivot_cases"); }
        else { if (!c.check(!threw, "skyline_lu:exception:double", "exception on a matrix that needs no pivoting: " + msg, J().n("n", n))) return;
            bool ok = true; for (int i = 0; i < n && ok; ++i) { long double s = f[i]; for (int j = 0; j < n; ++j) s -= (long double)S.A[i][j].numerator() * x[j]; if (s != 0) ok = false; }
            c.check(ok, "skyline_lu:inexact:dyadic", "dyadic system (all pivots powers of two) is not solved exactly in double", J().n("n", n)); vf::obs_sum("exact_solved_cases"); }
    }
}
static void sub_skyline_exact() {
    const uint64_t NM = 1ULL << 12, BATCH = 64; long idx = 0;
    for (uint64_t m0 = 0; m0 < NM; m0 += BATCH, ++idx) {
        if (!sel("skyline_exact", idx)) continue;
        Case c("skyline_exact", idx, J().s("space", "4x4 patterns").n("mask_from", m0)); Rng r(vf::case_seed("skyline_exact", idx));
        for (uint64_t m = m0; m < m0 + BATCH; ++m) for (int rep = 0; rep < 2; ++rep) { IntSys S = int_system(4, m, true, 0, r, false); exact_case(c, S, r, true); c.nontrivial(); }
    }
    long N = vf::tier(800, 15000);
    for (long k = 0; k < N; ++k, ++idx) {
        if (!sel("skyline_exact", idx)) continue;
        Rng r(vf::case_seed("skyline_exact", idx)); int n = (int)r.range(1, 6); double d = r.pick(std::vector<double>{0.15, 0.35, 0.7});
        Case c("skyline_exact", idx, J().s("space", "random").n("n", n).n("dens", d)); IntSys S = int_system(n, 0, false, d, r, false); exact_case(c, S, r, true); c.nontrivial();
    }
}
static void sub_skyline_dyadic() {
    long N = vf::tier(1000, 20000);
    for (long idx = 0; idx < N; ++idx) {
        if (!sel("skyline_dyadic", idx)) continue;
        Rng r(vf::case_seed("skyline_dyadic", idx)); int n = (int)r.range(1, 7); double d = r.pick(std::vector<double>{0.1, 0.25, 0.5});
        Case c("skyline_dyadic", idx, J().n("n", n).n("dens", d)); bool found = false;
        for (int t = 0; t < 400 && !found; ++t) { IntSys S = int_system(n, 0, false, d, r, true); std::vector<int> perm(n); { std::vector<double> one(S.val.size(), 1.0); size_t nn = n; reorder::cuthill_mckee<false>::get(std::tie(nn, S.ptr, S.col, one), perm); }
            std::vector<long> pl(perm.begin(), perm.end()); if (!is_perm(pl)) { c.fail("cuthill_mckee:not-a-permutation", "ordering is not a permutation"); break; }
            std::vector<Q> piv; exact_pivots(S.A, perm, piv); bool ok = true; for (auto &p : piv) if (!pow2(p)) ok = false; if (!ok) continue;
            found = true; exact_case(c, S, r, false); }
        if (found) c.nontrivial();
    }
    // hand-made zero-pivot systems for complex and block values (exact by construction)
    long idx = N;
    if (sel("skyline_dyadic", idx)) { Case c("skyline_dyadic", idx, J().s("space", "handmade-zero-pivots"));
        auto expect_throw = [&](const std::string &what, auto make) { bool threw = false; try { make(); } catch (const std::exception &) { threw = true; } c.check(threw, "skyline_lu:zero-pivot-not-reported:" + what, "zero pivot not reported by an exception (" + what + ")"); };
        { size_t n = 2; std::vector<ptrdiff_t> ptr = {0, 2, 4}, col = {0, 1, 0, 1}; std::vector<Z> val = {Z(0, 2), Z(2, 0), Z(-2, 0), Z(0, 2)};    // [[2i,2],[-2,2i]]: pivot 2i - (-2)(1/(2i))(2) = 2i + 2/i = 0
          expect_throw("complex", [&] { solver::skyline_lu<Z> S(std::tie(n, ptr, col, val)); }); }
        { size_t n = 3; std::vector<ptrdiff_t> ptr = {0, 1, 3, 5}, col = {0, 1, 2, 1, 2}; std::vector<Z> val = {Z(1, 0), Z(0, 0), Z(1, 0), Z(1, 0), Z(0, 0)};
          expect_throw("complex-structural", [&] { solver::skyline_lu<Z> S(std::tie(n, ptr, col, val)); }); }
        { typedef static_matrix<double, 2, 2> Bk; Bk I = math::identity<Bk>(), O = math::zero<Bk>(); size_t n = 2; std::vector<ptrdiff_t> ptr = {0, 2, 4}, col = {0, 1, 0, 1}; std::vector<Bk> val = {I, I, I, I};
          expect_throw("block-schur-zero", [&] { solver::skyline_lu<Bk> S(std::tie(n, ptr, col, val)); });
          std::vector<Bk> v2 = {O, I, I, I}; expect_throw("block-first-zero", [&] { solver::skyline_lu<Bk> S(std::tie(n, ptr, col, v2)); });
          std::vector<ptrdiff_t> p3 = {0, 1, 2}, c3 = {1, 0}; std::vector<Bk> v3 = {I, I}; expect_throw("block-missing-diagonal", [&] { solver::skyline_lu<Bk> S(std::tie(n, p3, c3, v3)); }); }
        { size_t n = 3; std::vector<ptrdiff_t> ptr = {0, 1, 2, 3}, col = {0, 1, 2}; std::vector<double> val = {1, 0, 1}; expect_throw("double-zero-diagonal-entry", [&] { solver::skyline_lu<double> S(std::tie(n, ptr, col, val)); });
          std::vector<float> vf32 = {1, 0, 1}; expect_throw("float-zero-diagonal-entry", [&] { solver::skyline_lu<float> S(std::tie(n, ptr, col, vf32)); }); }
        c.nontrivial(); }
}

//---------------------------------------------------------------------------
// inverse: detail::inverse (double, complex) and math::inverse(static_matrix<N,N>), n = 1..8
// Oracle: columns of X solve A x_j = e_j by GEPP, so |A X^ - I| <= gamma_{3n} |L^||U^||X^| (Higham Thm 9.4, 14.3) and
// || |L||U| ||_inf <= ||L||_inf ||U||_inf <= n * n rho_n ||A||_inf with growth rho_n <= 2^(n-1) under partial pivoting:
//   ||A X^ - I||_inf <= 2 * 3 n^3 2^(n-1) u ||A||_inf ||X^||_inf   (factor 2: multiplication by the rounded reciprocal pivot; x4 complex)
//---------------------------------------------------------------------------
static LZ gen_invertible(int n, int kind, bool cplx, Rng &r, std::string &kname) {
    static const char *kn[] = {"random", "zero-diagonal", "row-permuted-dominant", "small-integers", "badly-scaled-rows", "sparse", "leading-minor-zero"}; kname = kn[kind];
    for (int t = 0; t < 200; ++t) {
        LZ A = LZ::Zero(n, n); auto rv = [&]() { return ZL(r.uni(-1, 1), cplx ? r.uni(-1, 1) : 0.0); };
        switch (kind) {
            case 0: for (int i = 0; i < n; ++i) for (int j = 0; j < n; ++j) A(i, j) = rv(); break;
            case 1: for (int i = 0; i < n; ++i) for (int j = 0; j < n; ++j) if (i != j) A(i, j) = rv(); break;
            case 2: { std::vector<int> p(n); std::iota(p.begin(), p.end(), 0); r.shuffle(p); for (int i = 0; i < n; ++i) { long double s = 0; for (int j = 0; j < n; ++j) if (j != i) { A(p[i], j) = rv() * (long double)0.5; s += std::abs(A(p[i], j)); } A(p[i], i) = ZL(s + 0.5L, 0); } break; }
            case 3: for (int i = 0; i < n; ++i) for (int j = 0; j < n; ++j) A(i, j) = ZL((double)r.range(-3, 3), cplx ? (double)r.range(-3, 3) : 0.0); break;
            case 4: for (int i = 0; i < n; ++i) { double s = std::pow(10.0, (double)r.range(-4, 4)); for (int j = 0; j < n; ++j) A(i, j) = rv() * (long double)s; } break;
            case 5: for (int i = 0; i < n; ++i) for (int j = 0; j < n; ++j) if (r.coin(0.4)) A(i, j) = rv(); break;
            default: for (int i = 0; i < n; ++i) for (int j = 0; j < n; ++j) A(i, j) = rv(); A(0, 0) = 0; if (n > 2) { A(1, 1) = A(1, 0) * A(0, 1); A(0, 0) = 1; } break;   // a leading principal minor vanishes
        }
        for (int i = 0; i < n; ++i) for (int j = 0; j < n; ++j) A(i, j) = ZL((double)A(i, j).real(), (double)A(i, j).imag());
        Eigen::FullPivLU<LZ> lu(A); if (!lu.isInvertible()) continue; LZ Ai = lu.inverse(); if (norm_inf(A) * norm_inf(Ai) > 1e12L) continue;   // numerically singular candidates are rejected (the property speaks of nonsingular blocks)
        return A;
    }
    LZ I = LZ::Identity(n, n); kname = "identity-fallback"; return I;
}
static double inv_bound(int n, bool cplx) { return (cplx ? 4.0 : 1.0) * 2 * 3.0 * n * n * n * std::pow(2.0, n - 1) * (2.2204460492503131e-16 / 2); }
template <class T> void check_inverse_dyn(Case &c, int n, const LZ &A) {
    // detail::inverse has no state of its own; the caller's scratch buffers are reused across all calls of the process (dirty on entry)
    static std::vector<T> t(64, T(777)); static std::vector<int> p(8, -7); std::vector<T> a(n * n);
    for (int i = 0; i < n; ++i) for (int j = 0; j < n; ++j) { if constexpr (std::is_same<T, double>::value) a[i * n + j] = (double)A(i, j).real(); else a[i * n + j] = T((double)A(i, j).real(), (double)A(i, j).imag()); }
    detail::inverse(n, a.data(), t.data(), p.data());
    LZ X(n, n); for (int i = 0; i < n; ++i) for (int j = 0; j < n; ++j) X(i, j) = ZL(std::real(a[i * n + j]), std::imag(a[i * n + j]));
    LZ Rm = A * X - LZ::Identity(n, n); bool cp = !std::is_same<T, double>::value;
    c.check_le((double)(norm_inf(Rm) / (norm_inf(A) * norm_inf(X))), inv_bound(n, cp), std::string("inverse:residual:") + (cp ? "complex" : "double"), "A * inverse(A) differs from I by more than the GEPP inversion bound");
    vf::obs_max("max_inverse_residual_over_eps", (double)(norm_inf(Rm) / (norm_inf(A) * norm_inf(X))) / 2.2e-16);
}
template <int N> void check_inverse_static(Case &c, const LZ &A) {
    static_matrix<double, N, N> a; for (int i = 0; i < N; ++i) for (int j = 0; j < N; ++j) a(i, j) = (double)A(i, j).real();
    static_matrix<double, N, N> ai = math::inverse(a); LZ X(N, N); for (int i = 0; i < N; ++i) for (int j = 0; j < N; ++j) X(i, j) = ai(i, j);
    LZ Rm = A * X - LZ::Identity(N, N);
    c.check_le((double)(norm_inf(Rm) / (norm_inf(A) * norm_inf(X))), inv_bound(N, false), "inverse:residual:static_matrix", "A * math::inverse(A) differs from I by more than the GEPP inversion bound");
    // product through the library's own operator* as well (block identity the solvers rely on)
    static_matrix<double, N, N> pr = a * ai; long double w = 0; for (int i = 0; i < N; ++i) { long double s = 0; for (int j = 0; j < N; ++j) s += fabsl((long double)pr(i, j) - (i == j)); w = std::max(w, s); }
    c.check_le((double)(w / (norm_inf(A) * norm_inf(X))), inv_bound(N, false) + N * 2.3e-16, "inverse:operator-product:static_matrix", "a * inverse(a) computed with static_matrix operator* is not the identity");
}
static void sub_inverse() {
    long N = vf::tier(2400, 40000);
    for (long idx = 0; idx < N; ++idx) {
        if (!sel("inverse", idx)) continue;
        Rng r(vf::case_seed("inverse", idx)); int n = 1 + idx % 8, kind = (idx / 8) % 7, api = (idx / 56) % 3; std::string kname;
        LZ A = gen_invertible(n, kind, api == 1, r, kname);
        Case c("inverse", idx, J().n("n", n).s("kind", kname).s("api", api == 0 ? "detail::inverse<double>" : api == 1 ? "detail::inverse<complex>" : "math::inverse<static_matrix>"));
        try {
            if (api == 0) check_inverse_dyn<double>(c, n, A); else if (api == 1) check_inverse_dyn<Z>(c, n, A);
            else switch (n) { case 1: check_inverse_static<1>(c, A); break; case 2: check_inverse_static<2>(c, A); break; case 3: check_inverse_static<3>(c, A); break; case 4: check_inverse_static<4>(c, A); break;
                case 5: check_inverse_static<5>(c, A); break; case 6: check_inverse_static<6>(c, A); break; case 7: check_inverse_static<7>(c, A); break; default: check_inverse_static<8>(c, A); }
        } catch (const std::exception &e) { c.fail("inverse:exception", e.what()); }
        if (kname != "identity-fallback") c.nontrivial();
        vf::sample("inverse", J().n("n", n).s("kind", kname));
    }
}

//---------------------------------------------------------------------------
// QR: all shapes up to 12 x 12, both storage orders, kinds incl. rank deficient and zero columns; real / complex / float
// Householder QR (Higham Thm 19.4): A + dA = Q R^ with ||da_j||_2 <= g~_{mn} ||a_j||_2, and the explicitly formed Q^ satisfies
// ||Q^ - Q||_F <= sqrt(n) g~_{mn}; g~_k = c k u / (1 - c k u) with a small integer c (c = 6 is used).  Hence
//   ||A - Q^ R^||_F <= (1 + sqrt n) g~ ||A||_F,      ||Q^H Q^ - I||_F <= 2.5 sqrt(n) g~         (x4 for complex arithmetic)
// solve(): backward stable least squares / minimum norm solution (Thm 20.3, 21.4) => forward error by Wedin's bound (Thm 20.1):
//   ||x^ - x|| <= 2 kappa_2 e (2 ||x|| + (kappa_2 + 1) ||r|| / ||A||_2),   e = g~;    minimum norm: <= 6 kappa_2 e ||x||
//---------------------------------------------------------------------------
template <class T> struct QT;
template <> struct QT<double> { static const bool cplx = false; static double eps() { return 2.2204460492503131e-16; } static const char* name() { return "double"; } static double mk(ZL v) { return (double)v.real(); } };
template <> struct QT<float> { static const bool cplx = false; static double eps() { return 1.1920929e-7; } static const char* name() { return "float"; } static float mk(ZL v) { return (float)v.real(); } };
template <> struct QT<Z> { static const bool cplx = true; static double eps() { return 2.2204460492503131e-16; } static const char* name() { return "complex"; } static Z mk(ZL v) { return Z((double)v.real(), (double)v.imag()); } };
template <class T> ZL toL(const T &v) { return ZL(std::real(v), std::imag(v)); }

template <class T> void qr_case(Case &c, Rng &r, int m, int n, bool colmajor, int kind, detail::QR<T> *shared = nullptr, detail::QR<T> *shared_solve = nullptr) {
    const bool cp = QT<T>::cplx; std::vector<T> a(m * n); LZ A(m, n);
    auto rv = [&]() { return ZL(r.uni(-1, 1), cp ? r.uni(-1, 1) : 0.0); };
    for (int i = 0; i < m; ++i) for (int j = 0; j < n; ++j) A(i, j) = rv();
    switch (kind) {
        case 1: if (n >= 2) { for (int i = 0; i < m; ++i) { ZL s = 0; for (int j = 0; j + 1 < n; ++j) s += A(i, j) * (long double)(j + 1); A(i, n - 1) = s; } } else for (int i = 0; i < m; ++i) A(i, 0) = 0; break;   // last column dependent
        case 2: for (int i = 0; i < m; ++i) { A(i, n / 2) = 0; if (r.coin(0.5)) A(i, 0) = 0; } break;                   // zero columns
        case 3: A.setZero(); break;
        case 4: for (int i = 0; i < m; ++i) for (int j = 0; j < n; ++j) A(i, j) = ZL((double)r.range(-3, 3), cp ? (double)r.range(-3, 3) : 0.0); break;
        case 5: for (int i = 1; i < m; ++i) A(i, 0) = 0; if (n > 1 && m > 1) for (int i = 2; i < m; ++i) A(i, 1) = 0; break;     // reflector with x = 0 (tau = 0 branch)
        default: break;
    }
    for (int i = 0; i < m; ++i) for (int j = 0; j < n; ++j) { T v = QT<T>::mk(A(i, j)); A(i, j) = toL(v); a[colmajor ? j * m + i : i * n + j] = v; }
    const int k = std::min(m, n); double g = 6.0 * m * n * (QT<T>::eps() / 2) * (cp ? 4 : 1); std::string T_ = QT<T>::name();
    try {
        std::vector<T> w = a; detail::QR<T> fresh; detail::QR<T> &qr = shared ? *shared : fresh; qr.factorize(m, n, w.data(), colmajor ? detail::col_major : detail::row_major);
        if (shared) {   // object reuse: the result must be bitwise the one of a fresh object
            std::vector<T> wf = a; detail::QR<T> qf; qf.factorize(m, n, wf.data(), colmajor ? detail::col_major : detail::row_major); bool same = true;
            for (int i = 0; i < m; ++i) for (int j = 0; j < n; ++j) if (!(qr.Q(i, j) == qf.Q(i, j))) same = false; for (int i = 0; i < std::min(m, n); ++i) for (int j = 0; j < n; ++j) if (!(qr.R(i, j) == qf.R(i, j))) same = false;
            c.check(same, "qr:reuse:factorize-differs-from-fresh-object:" + T_, "factorize() on a QR object that was used before differs from a fresh object", J().n("m", m).n("n", n)); vf::obs_sum("qr_reused_factorizations"); }
        LZ Qk(m, k), Rk = LZ::Zero(k, n); for (int i = 0; i < m; ++i) for (int j = 0; j < k; ++j) Qk(i, j) = toL(qr.Q(i, j)); for (int i = 0; i < k; ++i) for (int j = 0; j < n; ++j) Rk(i, j) = toL(qr.R(i, j));
        bool tri = true; for (int i = 0; i < k; ++i) for (int j = 0; j < i && j < n; ++j) if (Rk(i, j) != ZL(0)) tri = false;
        c.check(tri, "qr:R-not-upper-triangular:" + T_, "R(i,j) is non-zero below the diagonal");
        LZ D = A - Qk * Rk; long double fa = fro(A);
        c.check_le((double)fro(D), (1 + std::sqrt((double)n)) * g * (double)fa + 1e-300, "qr:A=QR:" + T_, "||A - Q R||_F exceeds the Householder QR bound");
        LZ O = Qk.adjoint() * Qk - LZ::Identity(k, k);
        c.check_le((double)fro(O), 2.5 * std::sqrt((double)n) * g, "qr:Q-orthonormal:" + T_, "||Q^H Q - I||_F exceeds the bound for an explicitly formed Householder Q");
        vf::obs_max("max_qr_orth_over_eps_" + T_, (double)fro(O) / QT<T>::eps());
        if (fa > 0) vf::obs_max("max_qr_resid_over_eps_" + T_, (double)(fro(D) / fa) / QT<T>::eps());
        if (kind == 0 || kind == 4 || kind == 5) {
            Eigen::MatrixXcd Ad = A.cast<std::complex<double>>(); Eigen::JacobiSVD<Eigen::MatrixXcd> svd(Ad); double smax = svd.singularValues()(0), smin = svd.singularValues()(k - 1);
            if (smin > 0 && smax / smin * g < 0.05) {       // full rank with a usable condition number
                double kappa = smax / smin; std::vector<T> b(m), x(n, T(777)); LZV bd(m); for (int i = 0; i < m; ++i) { b[i] = QT<T>::mk(rv()); bd(i) = toL(b[i]); }
                std::vector<T> w2 = a; detail::QR<T> q2f; detail::QR<T> &q2 = shared_solve ? *shared_solve : q2f; q2.solve(m, n, w2.data(), b.data(), x.data(), colmajor ? detail::col_major : detail::row_major);
                if (shared_solve) { std::vector<T> wf = a, xf(n, T(777)); detail::QR<T> qf; qf.solve(m, n, wf.data(), b.data(), xf.data(), colmajor ? detail::col_major : detail::row_major); bool same = true; for (int j = 0; j < n; ++j) if (!(xf[j] == x[j])) same = false;
                    c.check(same, "qr:reuse:solve-differs-from-fresh-object:" + T_, "solve() on a QR object that was used before differs from a fresh object", J().n("m", m).n("n", n)); }
                LZV xr = A.completeOrthogonalDecomposition().solve(bd); LZV xd(n); for (int j = 0; j < n; ++j) xd(j) = toL(x[j]);
                LZV rr = bd - A * xr; long double nx = xr.norm(), nr = rr.norm(); LZV dx = xd - xr;
                double bound = m >= n ? 2 * kappa * g * (2 * (double)nx + (kappa + 1) * (double)nr / smax) : 6 * kappa * g * (double)nx;
                c.check_le((double)dx.norm(), bound + 1e-300, std::string(m >= n ? "qr:solve:least-squares:" : "qr:solve:minimum-norm:") + T_, "QR::solve differs from the least-squares / minimum-norm solution by more than Wedin's bound");
                vf::obs_sum("qr_solves_checked");
                if (m >= n && r.coin(0.5)) {  // documented reuse: compute() once, solve(..., computed = true)
                    std::vector<T> w3 = a, x3(n, T(777)); detail::QR<T> q3; q3.compute(m, n, w3.data(), colmajor ? detail::col_major : detail::row_major);
                    q3.solve(m, n, w3.data(), b.data(), x3.data(), colmajor ? detail::col_major : detail::row_major, true);
                    bool same = true; for (int j = 0; j < n; ++j) if (!(x3[j] == x[j])) same = false; c.check(same, "qr:solve:computed-flag:" + T_, "solve(computed=true) after compute() differs from solve()"); }
            }
        }
    } catch (const std::exception &e) { c.fail("qr:exception", e.what()); }
}
// block-valued QR (static_matrix specialisation): assemble scalar Q, R through the public accessors
static void qr_block_case(Case &c, Rng &r, int m, int n, bool colmajor, detail::QR<static_matrix<double, 2, 2>> *shared = nullptr) {
    typedef static_matrix<double, 2, 2> Bk; const int B = 2; std::vector<Bk> a(m * n); LZ A(m * B, n * B);
    for (int i = 0; i < m * B; ++i) for (int j = 0; j < n * B; ++j) A(i, j) = ZL((double)r.uni(-1, 1), 0);
    for (int i = 0; i < m; ++i) for (int j = 0; j < n; ++j) { Bk b; for (int p = 0; p < B; ++p) for (int q = 0; q < B; ++q) b(p, q) = (double)A(i * B + p, j * B + q).real(); a[colmajor ? j * m + i : i * n + j] = b; }
    try {
        std::vector<Bk> a0 = a; detail::QR<Bk> fresh; detail::QR<Bk> &qr = shared ? *shared : fresh; qr.factorize(m, n, a.data(), colmajor ? detail::col_major : detail::row_major);
        if (shared) { detail::QR<Bk> qf; qf.factorize(m, n, a0.data(), colmajor ? detail::col_major : detail::row_major); bool same = true;
            for (int i = 0; i < m; ++i) for (int j = 0; j < std::min(m, n); ++j) { Bk x = qr.Q(i, j), y = qf.Q(i, j); for (int k = 0; k < 4; ++k) if (!(x(k) == y(k))) same = false; }
            for (int i = 0; i < std::min(m, n); ++i) for (int j = i; j < n; ++j) { Bk x = qr.R(i, j), y = qf.R(i, j); for (int k = 0; k < 4; ++k) if (!(x(k) == y(k))) same = false; }
            c.check(same, "qr:reuse:factorize-differs-from-fresh-object:block2", "factorize() on a block QR object that was used before differs from a fresh object", J().n("m", m).n("n", n)); vf::obs_sum("qr_reused_factorizations"); }
        int M = m * B, Nn = n * B, k = std::min(M, Nn), kb = std::min(m, n); LZ Qk = LZ::Zero(M, kb * B), Rk = LZ::Zero(kb * B, Nn);
        for (int i = 0; i < m; ++i) for (int j = 0; j < kb; ++j) { Bk q = qr.Q(i, j); for (int p = 0; p < B; ++p) for (int s = 0; s < B; ++s) Qk(i * B + p, j * B + s) = q(p, s); }
        for (int i = 0; i < kb; ++i) for (int j = i; j < n; ++j) { Bk q = qr.R(i, j); for (int p = 0; p < B; ++p) for (int s = 0; s < B; ++s) Rk(i * B + p, j * B + s) = q(p, s); }
        double g = 6.0 * M * Nn * 1.1102230246251565e-16; LZ D = A - Qk * Rk; LZ O = Qk.adjoint() * Qk - LZ::Identity(k, k);
        c.check_le((double)fro(D), (1 + std::sqrt((double)Nn)) * g * (double)fro(A), "qr:A=QR:block2", "block QR: ||A - Q R||_F exceeds the Householder QR bound");
        c.check_le((double)fro(O), 2.5 * std::sqrt((double)Nn) * g, "qr:Q-orthonormal:block2", "block QR: Q columns are not orthonormal");
    } catch (const std::exception &e) { c.fail("qr:exception", e.what()); }
}
static void sub_qr() {
    const int SH = 144; long N = vf::tier(SH * 2 * 3, SH * 2 * 6 * 3);      // shapes x orders x (kinds cycled | all kinds) x types
    for (long idx = 0; idx < N; ++idx) {
        if (!sel("qr", idx)) continue;
        Rng r(vf::case_seed("qr", idx)); int m = 1 + idx % 12, n = 1 + (idx / 12) % 12; bool colmajor = (idx / SH) % 2; int type = (idx / (2 * SH)) % 3; int kind = vf::thorough() ? (idx / (6 * SH)) % 6 : (int)((idx * 7 + idx / 12) % 6);
        static const char *kn[] = {"random", "dependent-column", "zero-columns", "zero-matrix", "integers", "zero-subcolumn"};
        Case c("qr", idx, J().n("m", m).n("n", n).s("order", colmajor ? "col_major" : "row_major").s("type", type == 0 ? "double" : type == 1 ? "complex" : "float").s("kind", kn[kind]));
        if (type == 0) qr_case<double>(c, r, m, n, colmajor, kind); else if (type == 1) qr_case<Z>(c, r, m, n, colmajor, kind); else qr_case<float>(c, r, m, n, colmajor, kind);
        if (kind != 3) c.nontrivial();
        vf::sample("qr", J().n("m", m).n("n", n).s("kind", kn[kind]));
    }
    long NB = vf::tier(72, 36 * 2 * 6);
    for (long k = 0; k < NB; ++k) { long idx = N + k;
        if (!sel("qr", idx)) continue;
        Rng r(vf::case_seed("qr", idx)); int m = 1 + k % 6, n = 1 + (k / 6) % 6; bool colmajor = (k / 36) % 2;
        Case c("qr", idx, J().n("m", m).n("n", n).s("order", colmajor ? "col_major" : "row_major").s("type", "block2").s("kind", "random")); qr_block_case(c, r, m, n, colmajor); c.nontrivial(); }
    vf::obs_set("qr_space", "all shapes 1..12 x 1..12, both storage orders, double/complex/float; 2x2-block shapes 1..6 x 1..6");
}

// Object-reuse histories: ONE QR object factorizes / solves a sequence of matrices of varying shape, storage order and kind
// (incl. rank-deficient and zero matrices); every step is checked with the oracles above and bitwise against a fresh object.
// (coarsening::tentative_prolongation reuses one QR per thread for all aggregates.)
template <class T> void qr_history(Case &c, Rng &r, int len) {
    detail::QR<T> fac, sol;
    for (int s = 0; s < len; ++s) { int m = (int)r.range(1, 12), n = (int)r.range(s ? 1 : 2, 12); bool cm = r.coin(); int kind = (int)r.range(0, 5); qr_case<T>(c, r, m, n, cm, kind, &fac, &sol); }
}
static void sub_qr_reuse() {
    long N = vf::tier(400, 6000);
    for (long idx = 0; idx < N; ++idx) {
        if (!sel("qr_reuse", idx)) continue;
        Rng r(vf::case_seed("qr_reuse", idx)); int type = idx % 4, len = (int)r.range(2, 8);
        Case c("qr_reuse", idx, J().s("type", type == 0 ? "double" : type == 1 ? "complex" : type == 2 ? "float" : "block2").n("history_length", len).n("rep", idx / 4));
        if (type == 0) qr_history<double>(c, r, len); else if (type == 1) qr_history<Z>(c, r, len); else if (type == 2) qr_history<float>(c, r, len);
        else { detail::QR<static_matrix<double, 2, 2>> q; for (int s = 0; s < len; ++s) qr_block_case(c, r, (int)r.range(1, 6), (int)r.range(1, 6), r.coin(), &q); }
        c.nontrivial();
    }
}

//---------------------------------------------------------------------------
// static_matrix identities on integer data (exact in double / complex<double>)
//---------------------------------------------------------------------------
template <class T> T ival(Rng &r) { if constexpr (std::is_same<T, double>::value) return (double)r.range(-4, 4); else return T((double)r.range(-4, 4), (double)r.range(-4, 4)); }
template <class T, int N, int M> static_matrix<T, N, M> irand(Rng &r) { static_matrix<T, N, M> a; for (int i = 0; i < N * M; ++i) a(i) = ival<T>(r); return a; }
template <class T, int N, int M> bool meq(const static_matrix<T, N, M> &a, const static_matrix<T, N, M> &b) { for (int i = 0; i < N * M; ++i) if (!(a(i) == b(i))) return false; return true; }
template <class T, int N, int K, int M> void sm_identities(Case &c, Rng &r) {
    std::string tag = std::string(std::is_same<T, double>::value ? "double" : "complex") + ":" + std::to_string(N) + "x" + std::to_string(K) + "x" + std::to_string(M);
    static_matrix<T, N, K> a = irand<T, N, K>(r), a2 = irand<T, N, K>(r); static_matrix<T, K, M> b = irand<T, K, M>(r), b2 = irand<T, K, M>(r); static_matrix<T, M, N> d = irand<T, M, N>(r);
    // definition of the product
    { static_matrix<T, N, M> p = a * b; bool ok = true; for (int i = 0; i < N; ++i) for (int j = 0; j < M; ++j) { T s = T(0); for (int k = 0; k < K; ++k) s += a(i, k) * b(k, j); if (!(p(i, j) == s)) ok = false; } c.check(ok, "static_matrix:product-definition", "operator* differs from sum_k a_ik b_kj (" + tag + ")"); }
    c.check(meq((a + a2) * b, a * b + a2 * b), "static_matrix:distributive-left", "(a+a')b != ab + a'b (" + tag + ")");
    c.check(meq(a * (b + b2), a * b + a * b2), "static_matrix:distributive-right", "a(b+b') != ab + ab' (" + tag + ")");
    c.check(meq((a * b) * d, a * (b * d)), "static_matrix:associative", "(ab)d != a(bd) (" + tag + ")");
    c.check(meq(math::adjoint(a * b), math::adjoint(b) * math::adjoint(a)), "static_matrix:adjoint-of-product", "(ab)^H != b^H a^H (" + tag + ")");
    c.check(meq(math::adjoint(math::adjoint(a)), a), "static_matrix:adjoint-involution", "(a^H)^H != a (" + tag + ")");
    { bool ok = true; auto ah = math::adjoint(a);
      for (int i = 0; i < N; ++i) for (int j = 0; j < K; ++j) { ZL e = std::conj(toL(a(i, j))); if (toL(ah(j, i)) != e) ok = false; } c.check(ok, "static_matrix:adjoint-definition", "adjoint is not the conjugate transpose (" + tag + ")"); }
    c.check(meq(a - a2, a + (T(-1) * a2)), "static_matrix:minus", "a - a' != a + (-1)a' (" + tag + ")");
    c.check(meq(a - a2, a + (-a2)), "static_matrix:unary-minus", "a - a' != a + (-a') (" + tag + ")");
    { static_matrix<T, N, K> z = math::zero<static_matrix<T, N, K>>(); c.check(meq(a + z, a) && math::is_zero(z) && (!math::is_zero(a) || meq(a, z)), "static_matrix:zero", "zero element misbehaves (" + tag + ")"); }
    { static_matrix<T, N, N> I = math::identity<static_matrix<T, N, N>>(); static_matrix<T, K, K> Ik = math::identity<static_matrix<T, K, K>>(); c.check(meq(I * a, a) && meq(a * Ik, a), "static_matrix:identity", "identity element misbehaves (" + tag + ")"); }
    { T s = ival<T>(r); static_matrix<T, N, K> sa = s * a; bool ok = true; for (int i = 0; i < N * K; ++i) if (!(sa(i) == s * a(i))) ok = false; static_matrix<T, N, K> t = a; t *= s; c.check(ok && meq(t, sa), "static_matrix:scalar-multiple", "s * a differs from the entrywise product (" + tag + ")"); }
    { static_matrix<T, N, K> t = a; t += a2; t -= a2; c.check(meq(t, a), "static_matrix:compound-assignment", "a += a'; a -= a' does not restore a (" + tag + ")"); }
    { long double f = 0; for (int i = 0; i < N * K; ++i) f += std::norm(toL(a(i))); double nr = math::norm(a); c.check_le(std::fabs(nr - (double)std::sqrt(f)), 4 * 2.3e-16 * (double)std::sqrt(f), "static_matrix:norm-frobenius", "math::norm is not the Frobenius norm (" + tag + ")"); }
    { static_matrix<T, N, 1> u = irand<T, N, 1>(r), v = irand<T, N, 1>(r); ZL s = 0; for (int i = 0; i < N; ++i) s += toL(u(i)) * std::conj(toL(v(i))); c.check(toL(math::inner_product(u, v)) == s, "static_matrix:inner-product-vectors", "inner_product(u,v) != sum u_i conj(v_i) (" + tag + ")"); }
    if constexpr (K > 1) { static_matrix<T, N, K> x = a, y = a2; auto p = math::inner_product(x, y); bool ok = true; for (int i = 0; i < K; ++i) for (int j = 0; j < K; ++j) { ZL s = 0; for (int k = 0; k < N; ++k) s += toL(x(k, i)) * std::conj(toL(y(k, j))); if (toL(p(i, j)) != s) ok = false; } c.check(ok, "static_matrix:inner-product-matrices", "inner_product(X,Y)_ij != sum_k x_ki conj(y_kj) (" + tag + ")"); }
    { static_matrix<T, N, K> cc = math::constant<static_matrix<T, N, K>>(3); bool ok = true; for (int i = 0; i < N * K; ++i) if (!(cc(i) == T(3))) ok = false; c.check(ok, "static_matrix:constant", "constant() misbehaves (" + tag + ")"); }
}
static void sub_static_matrix() {
    long N = vf::tier(600, 10000);
    for (long idx = 0; idx < N; ++idx) {
        if (!sel("static_matrix", idx)) continue;
        Rng r(vf::case_seed("static_matrix", idx)); Case c("static_matrix", idx, J().n("rep", idx));
        sm_identities<double, 2, 2, 2>(c, r); sm_identities<double, 3, 3, 3>(c, r); sm_identities<double, 2, 3, 4>(c, r); sm_identities<double, 4, 1, 4>(c, r); sm_identities<double, 1, 5, 1>(c, r); sm_identities<double, 5, 5, 5>(c, r);
        sm_identities<Z, 2, 2, 2>(c, r); sm_identities<Z, 3, 3, 3>(c, r); sm_identities<Z, 2, 3, 2>(c, r);
        // trace ordering used by operator<
        { auto a = irand<double, 3, 3>(r), b = irand<double, 3, 3>(r); double ta = a(0, 0) + a(1, 1) + a(2, 2), tb = b(0, 0) + b(1, 1) + b(2, 2); c.check((a < b) == (ta < tb), "static_matrix:less-than-trace", "operator< is not the comparison of traces"); }
        c.nontrivial();
    }
}

//---------------------------------------------------------------------------
// cuthill_mckee: always a permutation.  Exhaustive: all directed patterns on <= 5 vertices (with and without diagonal), both variants.
//---------------------------------------------------------------------------
template <class P> bool cm_ok(size_t n, const std::vector<ptrdiff_t> &ptr, const std::vector<ptrdiff_t> &col, const std::vector<double> &val, bool rev, std::string &err) {
    std::vector<P> perm(n, (P)-7);
    try { if (rev) reorder::cuthill_mckee<true>::get(std::tie(n, ptr, col, val), perm); else reorder::cuthill_mckee<false>::get(std::tie(n, ptr, col, val), perm); }
    catch (const std::exception &e) { err = std::string("exception: ") + e.what(); return false; }
    std::vector<long> pl(perm.begin(), perm.end()); if (!is_perm(pl)) { err = "not a permutation:"; for (auto x : pl) err += " " + std::to_string(x); return false; }
    return true;
}
static void sub_cm_exhaustive() {
    long idx = 0; long cmstride = vf::opt_int("cm-stride", 1);
    for (int n = 1; n <= 5; ++n) { uint64_t NM = 1ULL << (n * (n - 1)), BATCH = 2048;
        for (int diag = 0; diag < 2; ++diag) for (uint64_t m0 = 0; m0 < NM; m0 += BATCH, ++idx) {
            if (!sel("cm_exhaustive", idx)) continue; if (n == 5 && cmstride > 1 && (m0 / BATCH) % cmstride) continue;
            Case c("cm_exhaustive", idx, J().n("n", n).bl("diagonal", diag).n("mask_from", m0)); long bad = 0; std::string first;
            for (uint64_t m = m0; m < std::min(NM, m0 + BATCH); ++m) {
                std::vector<ptrdiff_t> ptr(1, 0), col; int k = 0; for (int i = 0; i < n; ++i) { for (int j = 0; j < n; ++j) { if (i == j) { if (diag) col.push_back(j); continue; } if (m >> k & 1) col.push_back(j); ++k; } ptr.push_back(col.size()); }
                std::vector<double> val(col.size(), 1.0);
                for (int rev = 0; rev < 2; ++rev) { std::string err; bool ok = (m & 1) ? cm_ok<int>(n, ptr, col, val, rev, err) : cm_ok<ptrdiff_t>(n, ptr, col, val, rev, err); ++c.checks;
                    if (!ok) { if (!bad) first = "mask " + std::to_string(m) + (rev ? " reverse: " : " forward: ") + err; ++bad; } }
                vf::obs_sum("cm_patterns");
            }
            if (bad) c.fail("cuthill_mckee:not-a-permutation", first, J().n("n", n).n("bad_in_batch", bad));
            c.nontrivial();
        } }
    vf::obs_set("cm_exhaustive_space", cmstride > 1 ? "all directed patterns on 1..4 vertices, every " + std::to_string(cmstride) + "th batch of 2048 patterns on 5 vertices; with and without diagonal; forward and reverse" : "all directed patterns on 1..5 vertices, with and without diagonal, forward and reverse");
}
static void sub_cm_random() {
    long N = vf::tier(1000, 20000);
    for (long idx = 0; idx < N; ++idx) {
        if (!sel("cm_random", idx)) continue;
        Rng r(vf::case_seed("cm_random", idx)); size_t n = r.coin(0.2) ? r.range(1, 8) : r.range(1, 300); int ncomp = (int)r.range(1, 6); double deg = r.pick(std::vector<double>{0.5, 1.5, 3, 8}); bool sym = r.coin(0.4); double pdiag = r.pick(std::vector<double>{0.0, 0.7, 1.0});
        std::vector<int> comp(n); for (auto &x : comp) x = (int)r.range(0, ncomp);      // label ncomp = isolated vertex
        std::vector<std::set<ptrdiff_t>> rows(n); size_t ne = (size_t)(deg * n);
        for (size_t e = 0; e < ne; ++e) { size_t a = r.next() % n, b = r.next() % n; if (a == b || comp[a] != comp[b] || comp[a] == ncomp) continue; rows[a].insert(b); if (sym) rows[b].insert(a); }
        for (size_t i = 0; i < n; ++i) if (r.coin(pdiag)) rows[i].insert(i);
        std::vector<ptrdiff_t> ptr(1, 0), col; for (size_t i = 0; i < n; ++i) { std::vector<ptrdiff_t> cs(rows[i].begin(), rows[i].end()); if (r.coin(0.3)) r.shuffle(cs); for (auto x : cs) col.push_back(x); ptr.push_back(col.size()); } std::vector<double> val(col.size(), 1.0);
        Case c("cm_random", idx, J().n("n", n).n("components", ncomp).n("deg", deg).bl("symmetric", sym).n("pdiag", pdiag).n("nnz", col.size()).n("threads", omp_get_max_threads()));
        for (int rev = 0; rev < 2; ++rev) { std::string err; c.check(cm_ok<ptrdiff_t>(n, ptr, col, val, rev, err), "cuthill_mckee:not-a-permutation", err, J().n("n", n).bl("reverse", rev)); std::string e2; c.check(cm_ok<int>(n, ptr, col, val, rev, e2), "cuthill_mckee:not-a-permutation", e2, J().n("n", n).bl("reverse", rev)); }
        if (!col.empty()) c.nontrivial();
        vf::sample("cm_random", J().n("n", n).n("components", ncomp).n("nnz", col.size()).bl("symmetric", sym));
    }
}

//---------------------------------------------------------------------------
// solver::EigenSolver wrapper (anchor amgcl/solver/eigen.hpp): the mapped matrix must be the matrix that was passed.
// Eigen::SparseLU is GEPP with a column pre-ordering: backward error <= n^2 gamma_{3n} rho ||A||_inf (Higham Thm 9.5), rho <= 2^(n-1).
//---------------------------------------------------------------------------
static void sub_eigen_solver() {
    long N = vf::tier(200, 3000);
    for (long idx = 0; idx < N; ++idx) {
        if (!sel("eigen_solver", idx)) continue;
        Rng r(vf::case_seed("eigen_solver", idx)); int n = (int)r.range(1, 16); int fam = (int)r.range(0, 7); std::string fname; std::vector<char> p = random_pattern(n, fam, r, fname); LZ A = gen_dense<double>(n, p, (int)r.range(0, 1), r);
        Crs<double> C = pack<double>(n, p, A, r, false, false);
        Case c("eigen_solver", idx, J().n("n", n).s("family", fname));
        try { backend::crs<double> M(std::tie(C.n, C.ptr, C.col, C.val)); typedef solver::EigenSolver<Eigen::SparseLU<Eigen::SparseMatrix<double, Eigen::ColMajor, int>>> ES; ES S(M);
            std::vector<double> f(n), x(n, 777.0); LZV fd(n); for (int i = 0; i < n; ++i) { f[i] = r.uni(-1, 1); fd(i) = f[i]; } S(f, x); LZV xd(n); for (int i = 0; i < n; ++i) xd(i) = x[i];
            LZV res = fd - A * xd; double bound = 3.0 * n * n * n * std::pow(2.0, n - 1) * 2.2e-16;
            c.check_le((double)(vnorm_inf(res) / (norm_inf(A) * vnorm_inf(xd) + vnorm_inf(fd))), bound, "eigen_solver:backward-error", "EigenSolver<SparseLU> does not solve the system that was passed to it");
        } catch (const std::exception &e) { c.fail("eigen_solver:exception", e.what()); }
        c.nontrivial();
    }
}

int main(int argc, char **argv) {
    vf::init(argc, argv); STRIDE = vf::opt_int("stride", 1);
    if (vf::sub_enabled("skyline_exhaustive")) sub_skyline_exhaustive();
    if (vf::sub_enabled("skyline_random")) sub_skyline_random();
    if (vf::sub_enabled("skyline_exact")) sub_skyline_exact();
    if (vf::sub_enabled("skyline_dyadic")) sub_skyline_dyadic();
    if (vf::sub_enabled("inverse")) sub_inverse();
    if (vf::sub_enabled("qr")) sub_qr();
    if (vf::sub_enabled("qr_reuse")) sub_qr_reuse();
    if (vf::sub_enabled("static_matrix")) sub_static_matrix();
    if (vf::sub_enabled("cm_exhaustive")) sub_cm_exhaustive();
    if (vf::sub_enabled("cm_random")) sub_cm_random();
    if (vf::sub_enabled("eigen_solver")) sub_eigen_solver();
    vf::obs_add("threads_seen", std::to_string(omp_get_max_threads()));
    return vf::finish();
}
