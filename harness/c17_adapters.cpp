// C17 (part 1) -- matrix adapters preserve the operator (DESIGN.md 5/C17).
// Sub-checks
//   adapters : the same matrix presented through every adapter; rows / cols / nonzeros, complete row
//              iteration (column and value sequence), conversion to the internal CRS and SpMV must agree
//              with the source (R: exact on integer data, forward bound (k+4) 2 eps sum|a||x| on real data).
//   zerocopy : pointer identity of ptr/col/val, own_data == false, user arrays bitwise unchanged and
//              still owned by the harness after the adapter, an AMG hierarchy and a solver built on it
//              were destroyed (S: ASan flags a free / use after free).
//   reorder  : reorder<> is a permutation; perm(A) == P A P^T entry-wise; forward / inverse / vector views;
//              the back-permuted solution solves the ORIGINAL system (truthful-residual oracle).
//   scale    : scale_diagonal: matrix(A) == D^1/2 A D^1/2 entry-wise, rhs(f) == D^1/2 f; the post-scaled
//              solution solves the ORIGINAL system: reported residual == ||D^1/2 (f - A x)|| / ||D^1/2 f||
//              and ||f - A x||/||f|| <= sqrt(max a_ii / min a_ii) (tol + bound).
#include <amgcl/backend/builtin.hpp>
#include <amgcl/value_type/static_matrix.hpp>
#include <amgcl/adapter/crs_tuple.hpp>
#include <amgcl/adapter/zero_copy.hpp>
#include <amgcl/adapter/eigen.hpp>
#include <amgcl/adapter/ublas.hpp>
#include <amgcl/adapter/crs_builder.hpp>
#include <amgcl/adapter/block_matrix.hpp>
#include <amgcl/adapter/reorder.hpp>
#include <amgcl/adapter/scaled_problem.hpp>
#include <amgcl/amg.hpp>
#include <amgcl/make_solver.hpp>
#include <amgcl/coarsening/smoothed_aggregation.hpp>
#include <amgcl/relaxation/spai0.hpp>
#include <amgcl/solver/fgmres.hpp>
#include <amgcl/solver/cg.hpp>
#include <Eigen/Sparse>
#include <boost/numeric/ublas/matrix_sparse.hpp>
#include <vf/hooks.hpp>
#include <vf/solvecheck.hpp>
#include <omp.h>

using namespace amgcl;
using vf::Csr; using vf::J; using vf::Rng; using vf::Case;
// set-valued observations are comma lists: keep commas out of the tokens
static std::string tok(std::string s) { for (auto &ch : s) if (ch == ',') ch = ';'; return s; }
typedef long double LD;
typedef backend::builtin<double> B;
typedef amg<B, coarsening::smoothed_aggregation, relaxation::spai0> AMG;
typedef make_solver<AMG, solver::fgmres<B>> SolverF;
typedef make_solver<AMG, solver::cg<B>> SolverC;

//---------------------------------------------------------------------------
// generic adapter monitor
//---------------------------------------------------------------------------
struct Src { Csr<double> A; bool exact; std::vector<double> x, y0; };

// row iteration must reproduce the source rows in the same order
template <class Mat> void check_rows(Case &c, const std::string &nm, const Mat &M, const Csr<double> &A, bool nnz_exact = true) {
    c.check(backend::rows(M) == A.n, nm + ":rows", "rows(adapter) differs from the source", J().n("got", backend::rows(M)).n("expected", A.n));
    c.check(backend::cols(M) == A.m, nm + ":cols", "cols(adapter) differs from the source", J().n("got", backend::cols(M)).n("expected", A.m));
    if (nnz_exact) c.check(backend::nonzeros(M) == A.nnz(), nm + ":nonzeros", "nonzeros(adapter) differs from the source", J().n("got", backend::nonzeros(M)).n("expected", A.nnz()));
    bool ok = backend::rows(M) == A.n; size_t badrow = 0;
    for (size_t i = 0; ok && i < A.n; ++i) {
        ptrdiff_t j = A.ptr[i];
        for (auto a = backend::row_begin(M, i); a; ++a, ++j) { if (j >= A.ptr[i + 1] || (ptrdiff_t)a.col() != A.col[j] || !((double)a.value() == A.val[j])) { ok = false; badrow = i; break; } }
        if (ok && j != A.ptr[i + 1]) { ok = false; badrow = i; }
    }
    c.check(ok, nm + ":row-iteration", "row iteration over the adapter does not reproduce the source row (columns, values, order, length)", J().n("row", badrow));
}
// Two row iterators of the same adapted matrix alive at once and advanced alternately (what block_matrix, cpr and every merging
// consumer do): each must keep showing ITS row of the source.  Pairs (i, i+1) and (i, i); all rows up to 64, a stride sample beyond.
template <class Mat> void check_two_iterators(Case &c, const std::string &nm, const Mat &M, const Csr<double> &A) {
    if (!A.n || backend::rows(M) != A.n) return; bool ok = true; size_t bad = 0, step = std::max<size_t>(1, A.n / 64);
    for (size_t i = 0; ok && i < A.n; i += step) for (int same = 0; ok && same < 2; ++same) { size_t i2 = same ? i : (i + 1) % A.n;
        auto a = backend::row_begin(M, i); auto b2 = backend::row_begin(M, i2); ptrdiff_t ja = A.ptr[i], jb = A.ptr[i2];
        while (ok && (a || b2)) {
            if (a)  { if (ja >= A.ptr[i + 1]  || (ptrdiff_t)a.col()  != A.col[ja] || !((double)a.value()  == A.val[ja])) ok = false; ++a;  ++ja; }
            if (ok && b2) { if (jb >= A.ptr[i2 + 1] || (ptrdiff_t)b2.col() != A.col[jb] || !((double)b2.value() == A.val[jb])) ok = false; ++b2; ++jb; } }
        if (ok && (ja != A.ptr[i + 1] || jb != A.ptr[i2 + 1])) ok = false; if (!ok) bad = i; }
    c.check(ok, nm + ":two-iterators", "two row iterators of the same adapted matrix alive at once do not both reproduce their source rows", J().n("row", bad));
    vf::obs_sum("two_iterator_probes");
}
// conversion into the internal CRS (what every amgcl constructor does with a user matrix)
template <class Mat> void check_convert(Case &c, const std::string &nm0, const Mat &M, const Csr<double> &A) {
    // zero_copy<...> all return crs<double>: the conversion is then the crs copy constructor, one key for all index-type variants
    const std::string nm = nm0.compare(0, 10, "zero_copy<") == 0 ? std::string("zero_copy") : nm0;
    backend::crs<double> C(M);
    bool ok = C.nrows == A.n && C.ncols == A.m && C.nnz == A.nnz() && C.ptr && (ptrdiff_t)C.ptr[0] == 0;
    for (size_t i = 0; ok && i < A.n; ++i) ok = C.ptr[i + 1] == A.ptr[i + 1];
    for (size_t k = 0; ok && k < A.nnz(); ++k) ok = C.col[k] == A.col[k] && C.val[k] == A.val[k];
    c.check(ok, nm + ":crs-conversion", "backend::crs<double>(adapter) differs from the source arrays");
}
// SpMV through the adapter against the definition
template <class Mat> void check_spmv(Case &c, const std::string &nm, const Mat &M, const Src &S, double alpha, double beta) {
    const Csr<double> &A = S.A; backend::numa_vector<double> X(S.x), Y(S.y0);
    try { backend::spmv(alpha, M, X, beta, Y); } catch (const std::exception &e) { c.fail(nm + ":spmv:exception", e.what()); return; }
    bool ok = true; size_t bad = 0; double worst = 0;
    for (size_t i = 0; i < A.n; ++i) { LD s = 0, ac = 0; for (ptrdiff_t j = A.ptr[i]; j < A.ptr[i + 1]; ++j) { s += (LD)A.val[j] * S.x[A.col[j]]; ac += fabsl((LD)A.val[j] * S.x[A.col[j]]); }
        LD ref = (LD)alpha * s + (beta == 0 ? 0 : (LD)beta * S.y0[i]), acc = fabsl(alpha) * ac + fabsl((LD)beta * S.y0[i]);
        if (S.exact) { if (!((LD)Y[i] == ref)) { ok = false; bad = i; } }
        else { LD d = fabsl((LD)Y[i] - ref), bound = 2.0L * (A.ptr[i + 1] - A.ptr[i] + 4) * 2.22e-16L * acc; if (!(d <= bound)) { ok = false; bad = i; } if (acc > 0) worst = std::max(worst, (double)(d / (2.22e-16L * acc))); } }
    if (!S.exact) vf::obs_max("max_spmv_err_over_eps_abs_sum", worst);
    c.check(ok, nm + ":spmv", S.exact ? "spmv through the adapter differs from alpha A x + beta y (integer data: exact)" : "spmv through the adapter outside the forward bound", J().n("row", bad).n("alpha", alpha).n("beta", beta));
}
template <bool SPMV = true, class Mat> void check_all(Case &c, const std::string &nm, const Mat &M, const Src &S, Rng &r, bool nnz_exact = true) {
    try {
        check_rows(c, nm, M, S.A, nnz_exact); check_two_iterators(c, nm, M, S.A); check_convert(c, nm, M, S.A);
        static const double cs[5] = {0, 1, -1, 2, 0.5};
        // (Eigen matrices have no spmv with builtin vectors: the library converts them to CRS first, which check_convert covers)
        if constexpr (SPMV) { check_spmv(c, nm, M, S, 1.0, 0.0); check_spmv(c, nm, M, S, cs[r.range(1, 4)], cs[r.range(1, 4)]); }
        else { backend::crs<double> C(M); check_spmv(c, nm + "->crs", C, S, 1.0, 0.0); }
    } catch (const std::exception &e) { c.fail(nm + ":exception", e.what()); }
    vf::obs_add("adapters_seen", tok(nm)); vf::obs_sum("adapter_presentations");
}

template <class P, class C> void tuple_variant(Case &c, const std::string &nm, const Src &S, Rng &r) {
    const Csr<double> &A = S.A; std::vector<P> ptr(A.ptr.begin(), A.ptr.end()); std::vector<C> col(A.col.begin(), A.col.end()); std::vector<double> val = A.val; size_t n = A.n;
    { auto T = std::tie(n, ptr, col, val); check_all(c, "tuple<" + nm + ">", T, S, r); }
    { auto T = std::make_tuple(n, ptr, col, val); check_all(c, "tuple_by_value<" + nm + ">", T, S, r); }   // tuple owning copies
    { auto T = std::make_tuple((int)n, make_iterator_range(ptr.data(), ptr.data() + ptr.size()), make_iterator_range(col.data(), col.data() + col.size()), make_iterator_range(val.data(), val.data() + val.size()));
      check_all(c, "tuple_ranges<" + nm + ">", T, S, r); }
}

struct RowBuilder { typedef double val_type; typedef long col_type; const Csr<double> *A;
    size_t rows() const { return A->n; } size_t nonzeros() const { return A->nnz(); }
    void operator()(size_t row, std::vector<col_type> &col, std::vector<val_type> &val) const { for (ptrdiff_t j = A->ptr[row]; j < A->ptr[row + 1]; ++j) { col.push_back(A->col[j]); val.push_back(A->val[j]); } } };

static Src make_src(Rng &r, long idx, bool square, bool sorted_only) {
    Src S; S.exact = r.coin(0.5); size_t n = idx % 6 == 0 ? r.range(40, 300) : r.range(1, 30), m = square ? n : (size_t)r.range(1, 40);
    double d = n * m < 400 ? r.pick(std::vector<double>{0.05, 0.2, 0.6, 1.0}) : r.uni(2, 9) / m; bool sorted = sorted_only || r.coin(0.6);
    S.A = S.exact ? vf::random_int_sparse(n, m, d, 6, r, sorted) : vf::random_real_sparse(n, m, d, r, sorted);
    S.x = S.exact ? vf::random_int_vector(m, r) : vf::random_vector(m, r); S.y0 = S.exact ? vf::random_int_vector(n, r) : vf::random_vector(n, r);
    return S;
}
static bool is_sorted(const Csr<double> &A) { for (size_t i = 0; i < A.n; ++i) for (ptrdiff_t j = A.ptr[i] + 1; j < A.ptr[i + 1]; ++j) if (A.col[j - 1] >= A.col[j]) return false; return true; }

static void sub_adapters() {
    long N = vf::tier(300, 6000);
    for (long idx = 0; idx < N; ++idx) {
        if (!vf::selected("adapters", idx)) continue;
        Rng r(vf::case_seed("adapters", idx)); Src S = make_src(r, idx, true, false); const Csr<double> &A = S.A; size_t n = A.n; bool sorted = is_sorted(A);
        Case c("adapters", idx, J().n("n", n).n("nnz", A.nnz()).bl("exact", S.exact).bl("sorted", sorted).n("threads", omp_get_max_threads()));
        // tuples of std::vector / iterator ranges with every index type
        tuple_variant<int, int>(c, "int,int", S, r); tuple_variant<long, long>(c, "long,long", S, r); tuple_variant<unsigned, unsigned>(c, "unsigned,unsigned", S, r);
        tuple_variant<size_t, size_t>(c, "size_t,size_t", S, r); tuple_variant<ptrdiff_t, ptrdiff_t>(c, "ptrdiff_t,ptrdiff_t", S, r);
        tuple_variant<long, int>(c, "long,int", S, r); tuple_variant<size_t, unsigned>(c, "size_t,unsigned", S, r);
        { auto T = A.tie(); check_all(c, "tuple_const_refs", T, S, r); }
        // internal CRS, shared_ptr<crs>, copies
        { backend::crs<double> M(n, n, A.ptr, A.col, A.val); check_all(c, "crs", M, S, r);
          auto P = std::make_shared<backend::crs<double>>(M); check_all(c, "shared_ptr<crs>", *P, S, r);
          backend::crs<double, int, int> M32(M); check_all(c, "crs<int,int>(crs)", M32, S, r);
          backend::crs<float> Mf(M); if (S.exact) check_rows(c, "crs<float>(crs)", Mf, A); }
        // crs_builder
        { RowBuilder rb{&A}; auto M = adapter::make_matrix(rb); check_all(c, "crs_builder", M, S, r); }
        // Eigen (row-major; Eigen keeps rows as inserted only for sorted input => sorted sources only)
        { std::vector<int> p32(A.ptr.begin(), A.ptr.end()), c32(A.col.begin(), A.col.end()); std::vector<double> v = A.val;
          Eigen::Map<Eigen::SparseMatrix<double, Eigen::RowMajor, int>> EM(n, n, A.nnz(), p32.data(), c32.data(), v.data()); check_all<false>(c, "eigen_map<int>", EM, S, r);
          std::vector<ptrdiff_t> p64 = A.ptr, c64 = A.col;
          Eigen::Map<Eigen::SparseMatrix<double, Eigen::RowMajor, ptrdiff_t>> EM64(n, n, A.nnz(), p64.data(), c64.data(), v.data()); check_all<false>(c, "eigen_map<ptrdiff_t>", EM64, S, r);
          if (sorted) {
              Eigen::SparseMatrix<double, Eigen::RowMajor, int> E(n, n); std::vector<Eigen::Triplet<double>> tr; for (size_t i = 0; i < n; ++i) for (ptrdiff_t j = A.ptr[i]; j < A.ptr[i + 1]; ++j) tr.emplace_back((int)i, (int)A.col[j], A.val[j]);
              E.setFromTriplets(tr.begin(), tr.end()); E.makeCompressed(); check_all<false>(c, "eigen_sparse", E, S, r);
              Eigen::SparseMatrix<double, Eigen::RowMajor, int> U(n, n); U.reserve(Eigen::VectorXi::Constant(n, (int)n + 2));      // uncompressed storage with gaps
              for (size_t i = 0; i < n; ++i) for (ptrdiff_t j = A.ptr[i]; j < A.ptr[i + 1]; ++j) U.insert((int)i, (int)A.col[j]) = A.val[j];
              check_all<false>(c, "eigen_sparse_uncompressed", U, S, r);
          } }
        // uBLAS compressed_matrix (row major), sorted sources only (uBLAS keeps rows sorted)
        if (sorted) { boost::numeric::ublas::compressed_matrix<double> Um(n, n, A.nnz());
            for (size_t i = 0; i < n; ++i) for (ptrdiff_t j = A.ptr[i]; j < A.ptr[i + 1]; ++j) Um.push_back(i, A.col[j], A.val[j]);
            Um.complete_index1_data();
            auto T = backend::map(Um); check_all(c, "ublas_compressed", T, S, r);
            // uBLAS vectors are accepted by the builtin backend
            boost::numeric::ublas::vector<double> xu(n), yu(n); for (size_t i = 0; i < n; ++i) { xu[i] = S.x[i]; yu[i] = 0; }
            backend::spmv(1.0, T, xu, 0.0, yu); backend::numa_vector<double> X(S.x), Y(n); backend::crs<double> M(n, n, A.ptr, A.col, A.val); backend::spmv(1.0, M, X, 0.0, Y);
            bool ok = true; for (size_t i = 0; i < n; ++i) ok = ok && yu[i] == Y[i]; c.check(ok, "ublas_vectors:spmv", "spmv with uBLAS vectors differs from spmv with builtin vectors"); }
        if (A.nnz()) c.nontrivial();
        vf::sample("adapters", J().n("n", n).n("nnz", A.nnz()).bl("exact", S.exact).bl("sorted", sorted));
    }
}

//---------------------------------------------------------------------------
// block_matrix adapter / unblock (sorted scalar rows, documented precondition)
//---------------------------------------------------------------------------
template <int b> void block_variant(Case &c, const Src &S, Rng &r) {
    typedef static_matrix<double, b, b> Blk; typedef static_matrix<double, b, 1> Rhs; const Csr<double> &A = S.A; size_t n = A.n, nb = n / b; std::string nm = "block_matrix<" + std::to_string(b) + ">";
    // reference block rows: ordered map blockcol -> block (zero filled)
    std::vector<std::map<ptrdiff_t, std::array<double, b * b>>> ref(nb);
    for (size_t i = 0; i < n; ++i) for (ptrdiff_t j = A.ptr[i]; j < A.ptr[i + 1]; ++j) { auto &blk = ref[i / b][A.col[j] / b]; blk[(i % b) * b + A.col[j] % b] = A.val[j]; }
    size_t nblocks = 0; for (auto &rw : ref) nblocks += rw.size();
    auto T = A.tie(); backend::crs<double> M(n, n, A.ptr, A.col, A.val);
    auto check = [&](const std::string &tag, auto &BA) {
        c.check(backend::rows(BA) == nb && backend::cols(BA) == nb, tag + ":rows", "block adapter shape differs from n/b");
        bool ok = true; size_t cnt = 0;
        for (size_t ib = 0; ok && ib < nb; ++ib) { auto it = ref[ib].begin();
            for (auto a = backend::row_begin(BA, ib); a; ++a, ++it, ++cnt) { if (it == ref[ib].end() || a.col() != it->first) { ok = false; break; } Blk v = a.value(); for (int k = 0; k < b * b; ++k) if (!(v(k) == it->second[k])) ok = false; }
            if (ok && it != ref[ib].end()) ok = false; }
        c.check(ok && cnt == nblocks, tag + ":row-iteration", "block adapter rows differ from the zero-filled block structure of the scalar matrix");
        { bool tok2 = true; for (size_t ib = 0; tok2 && ib < nb; ++ib) { size_t i2 = (ib + 1) % nb; auto a = backend::row_begin(BA, ib); auto a2 = backend::row_begin(BA, i2); auto it = ref[ib].begin(), it2 = ref[i2].begin();
              auto eq = [&](auto &x, auto &itx, const std::map<ptrdiff_t, std::array<double, b * b>> &mp) { if (itx == mp.end() || x.col() != itx->first) return false; Blk v = x.value(); for (int k = 0; k < b * b; ++k) if (!(v(k) == itx->second[k])) return false; return true; };
              while (tok2 && (a || a2)) { if (a) { tok2 = eq(a, it, ref[ib]); ++a; if (tok2) ++it; } if (tok2 && a2) { tok2 = eq(a2, it2, ref[i2]); ++a2; if (tok2) ++it2; } }
              if (tok2 && (it != ref[ib].end() || it2 != ref[i2].end())) tok2 = false; }
          c.check(tok2, tag + ":two-iterators", "two block-row iterators alive at once do not both reproduce their block rows"); vf::obs_sum("two_iterator_probes"); }
        backend::crs<Blk> CB(BA); c.check(CB.nrows == nb && CB.nnz == nblocks, tag + ":crs-conversion", "crs<block>(block adapter) has wrong size", J().n("nnz", CB.nnz).n("expected", nblocks));
        // unblock(block(A)) == A with incomplete blocks zero-filled
        auto U = adapter::unblock_matrix(CB); bool uok = U->nrows == n && U->ncols == n && U->nnz == nblocks * b * b; std::vector<double> dense_row(n);
        for (size_t i = 0; uok && i < n; ++i) { std::fill(dense_row.begin(), dense_row.end(), 0.0); std::vector<char> seen(n, 0);
            for (ptrdiff_t j = A.ptr[i]; j < A.ptr[i + 1]; ++j) dense_row[A.col[j]] = A.val[j];
            for (auto j = U->ptr[i]; j < U->ptr[i + 1]; ++j) { auto cc = U->col[j]; if (cc < 0 || (size_t)cc >= n || seen[cc] || !(U->val[j] == dense_row[cc]) || !ref[i / b].count(cc / b)) { uok = false; break; } seen[cc] = 1; }
            for (size_t k = 0; uok && k < n; ++k) if (dense_row[k] != 0 && !seen[k]) uok = false; }
        c.check(uok, tag + ":unblock", "unblock_matrix(block_matrix(A)) differs from A (incomplete blocks zero-filled)");
        // spmv with block vectors and with scalar vectors
        std::vector<Rhs> xb(nb), yb(nb); for (size_t i = 0; i < nb; ++i) for (int k = 0; k < b; ++k) { xb[i](k) = S.x[i * b + k]; yb[i](k) = 0; }
        backend::numa_vector<Rhs> X(xb), Y(yb); backend::spmv(1.0, BA, X, 0.0, Y);
        bool sok = true; double worst = 0; for (size_t i = 0; i < n; ++i) { LD s = 0, ac = 0; for (ptrdiff_t j = A.ptr[i]; j < A.ptr[i + 1]; ++j) { s += (LD)A.val[j] * S.x[A.col[j]]; ac += fabsl((LD)A.val[j] * S.x[A.col[j]]); }
            double g = Y[i / b](i % b); if (S.exact) { if (!((LD)g == s)) sok = false; } else { LD bound = 2.0L * (ref[i / b].size() * b + 4) * 2.22e-16L * ac; if (!(fabsl((LD)g - s) <= bound)) sok = false; } }
        c.check(sok, tag + ":spmv", "spmv through the block adapter differs from the scalar A x");
        vf::obs_add("adapters_seen", tok(tag)); vf::obs_sum("adapter_presentations");
    };
    try { auto BA1 = adapter::block_matrix<Blk>(T); check(nm + "(tuple)", BA1); auto BA2 = adapter::block_matrix<Blk>(M); check(nm + "(crs)", BA2); }
    catch (const std::exception &e) { c.fail(nm + ":exception", e.what()); }
    // COMPOSITIONS: the block adapter (which keeps b row iterators of the wrapped matrix alive at once) over every other scalar adapter
    auto over = [&](const std::string &inner, const auto &Inner) { try { auto BA = adapter::block_matrix<Blk>(Inner); check(nm + "(" + inner + ")", BA); vf::obs_sum("adapter_compositions"); } catch (const std::exception &e) { c.fail(nm + "(" + inner + "):exception", e.what()); } };
    { RowBuilder rb{&A}; auto Bm = adapter::make_matrix(rb); over("crs_builder", Bm); }
    { std::vector<double> val = A.val;
      { std::vector<int> p(A.ptr.begin(), A.ptr.end()), cl(A.col.begin(), A.col.end()); auto Tt = std::tie(n, p, cl, val); over("tuple<int;int>", Tt);
        auto Z = adapter::zero_copy_direct(n, n, p.data(), cl.data(), val.data()); over("zero_copy_direct<int;int>", *Z);
        Eigen::Map<Eigen::SparseMatrix<double, Eigen::RowMajor, int>> EM(n, n, A.nnz(), p.data(), cl.data(), val.data()); over("eigen_map<int>", EM); }
      { std::vector<long> p(A.ptr.begin(), A.ptr.end()), cl(A.col.begin(), A.col.end()); auto Tt = std::tie(n, p, cl, val); over("tuple<long;long>", Tt); }
      { std::vector<unsigned> p(A.ptr.begin(), A.ptr.end()), cl(A.col.begin(), A.col.end()); auto Tt = std::tie(n, p, cl, val); over("tuple<unsigned;unsigned>", Tt); }
      { std::vector<size_t> p(A.ptr.begin(), A.ptr.end()), cl(A.col.begin(), A.col.end()); auto Tt = std::tie(n, p, cl, val); over("tuple<size_t;size_t>", Tt);
        auto Tr = std::make_tuple(n, make_iterator_range(p.data(), p.data() + p.size()), make_iterator_range(cl.data(), cl.data() + cl.size()), make_iterator_range(val.data(), val.data() + val.size())); over("tuple_ranges<size_t;size_t>", Tr);
        auto Z = adapter::zero_copy(n, p.data(), cl.data(), val.data()); over("zero_copy<size_t>", *Z); }
      { std::vector<ptrdiff_t> p = A.ptr, cl = A.col; auto Tt = std::tie(n, p, cl, val); over("tuple<ptrdiff_t;ptrdiff_t>", Tt); auto Z = adapter::zero_copy(n, p.data(), cl.data(), val.data()); over("zero_copy<ptrdiff_t>", *Z); }
      { auto P = std::make_shared<backend::crs<double>>(M); over("shared_ptr<crs>", *P); }
      { Eigen::SparseMatrix<double, Eigen::RowMajor, int> E(n, n); std::vector<Eigen::Triplet<double>> tr; for (size_t i = 0; i < n; ++i) for (ptrdiff_t j = A.ptr[i]; j < A.ptr[i + 1]; ++j) tr.emplace_back((int)i, (int)A.col[j], A.val[j]);
        E.setFromTriplets(tr.begin(), tr.end()); E.makeCompressed(); over("eigen_sparse", E);
        Eigen::SparseMatrix<double, Eigen::RowMajor, int> U(n, n); U.reserve(Eigen::VectorXi::Constant(n, (int)n + 2)); for (size_t i = 0; i < n; ++i) for (ptrdiff_t j = A.ptr[i]; j < A.ptr[i + 1]; ++j) U.insert((int)i, (int)A.col[j]) = A.val[j];
        over("eigen_sparse_uncompressed", U); }
      { boost::numeric::ublas::compressed_matrix<double> Um(n, n, A.nnz()); for (size_t i = 0; i < n; ++i) for (ptrdiff_t j = A.ptr[i]; j < A.ptr[i + 1]; ++j) Um.push_back(i, A.col[j], A.val[j]); Um.complete_index1_data(); auto Tu = backend::map(Um); over("ublas_compressed", Tu); }
    }
}
static void sub_block() {
    long N = vf::tier(240, 4000);
    for (long idx = 0; idx < N; ++idx) {
        if (!vf::selected("block_adapter", idx)) continue;
        Rng r(vf::case_seed("block_adapter", idx)); int b = 2 + idx % 3; Src S; S.exact = r.coin(0.5); size_t nb = idx % 5 == 0 ? r.range(20, 80) : r.range(1, 12), n = nb * b;
        double d = n < 40 ? r.pick(std::vector<double>{0.1, 0.3, 0.8}) : r.uni(2, 9) / n;
        S.A = S.exact ? vf::random_int_sparse(n, n, d, 6, r, true) : vf::random_real_sparse(n, n, d, r, true); S.x = S.exact ? vf::random_int_vector(n, r) : vf::random_vector(n, r); S.y0.assign(n, 0.0);
        Case c("block_adapter", idx, J().n("b", b).n("n", n).n("nnz", S.A.nnz()).bl("exact", S.exact));
        if (b == 2) block_variant<2>(c, S, r); else if (b == 3) block_variant<3>(c, S, r); else block_variant<4>(c, S, r);
        if (S.A.nnz()) c.nontrivial();
    }
}

//---------------------------------------------------------------------------
// zero copy
//---------------------------------------------------------------------------
template <class Mat> bool arrays_identical(const Mat &M, const void *p, const void *cl, const void *v) { return (const void*)M.ptr == p && (const void*)M.col == cl && (const void*)M.val == v; }

static Csr<double> solve_matrix(Rng &r, int fam, int nmin, int nmax, std::string &famname) {
    if (fam == 0) { famname = "grid"; return vf::model_problem(r, nmin, nmax); }
    if (fam == 1) { famname = "graph"; return vf::graph_laplacian((size_t)r.range(nmin, nmax), r.uni(3, 6), r, false, true); }
    famname = "convdiff"; int s = std::max(4, (int)std::sqrt((double)r.range(nmin, nmax))); return vf::convdiff(s, s + (int)r.range(0, 3), r.uni(0.1, 2.0), r);
}

static void sub_zerocopy() {
    long N = vf::tier(160, 2400);
    for (long idx = 0; idx < N; ++idx) {
        if (!vf::selected("zerocopy", idx)) continue;
        Rng r(vf::case_seed("zerocopy", idx)); bool solve = idx % 4 == 0;
        Src S; std::string fam = "random";
        if (solve) { S.A = solve_matrix(r, (int)(idx / 4 % 3), 60, 500, fam); S.exact = false; S.x = vf::random_vector(S.A.n, r); S.y0 = vf::random_vector(S.A.n, r); }
        else S = make_src(r, idx, false, false);
        const Csr<double> &A = S.A; size_t n = A.n, m = A.m;
        Case c("zerocopy", idx, J().s("family", fam).n("n", n).n("m", m).n("nnz", A.nnz()).bl("solve", solve));
        // user arrays (heap, owned by the harness) and reference copies
        std::vector<ptrdiff_t> ptr = A.ptr, col = A.col; std::vector<double> val = A.val;
        const std::vector<ptrdiff_t> ptr0 = ptr, col0 = col; const std::vector<double> val0 = val;
        auto unchanged = [&](const std::string &nm) { c.check(ptr == ptr0 && col == col0 && (val.empty() || memcmp(val.data(), val0.data(), val.size() * sizeof(double)) == 0), nm + ":user-arrays-modified", "zero-copy adapter (or an object built on it) modified the user arrays"); };
        try {
            { auto Z = adapter::zero_copy(n, m, ptr.data(), col.data(), val.data());
              c.check(arrays_identical(*Z, ptr.data(), col.data(), val.data()), "zero_copy:pointer-identity", "zero_copy does not alias the user arrays");
              c.check(!Z->own_data, "zero_copy:ownership", "zero_copy matrix claims ownership of user memory"); c.check(backend::bytes(*Z) == 0, "zero_copy:bytes", "zero-copy matrix reports owned bytes");
              check_all(c, "zero_copy<ptrdiff_t>", *Z, S, r);
              auto Z2 = Z; backend::crs<double> moved(std::move(*Z2)); c.check(!moved.own_data, "zero_copy:ownership-after-move", "moving a zero-copy matrix made it the owner"); }
            // move ASSIGNMENT into objects that own storage of their own (default-constructed, holding a copy, element of a container):
            // the target must not end up owning -- and later freeing -- the user arrays (a free shows up as a crash under ASan, the
            // flag is checked in every flavour).  (added after a seeded change dropped own_data from the move assignment)
            { auto Z = adapter::zero_copy(n, m, ptr.data(), col.data(), val.data());
              backend::crs<double> t1; t1 = std::move(*Z); c.check(!t1.own_data && arrays_identical(t1, ptr.data(), col.data(), val.data()), "zero_copy:ownership-after-move-assignment", "move-assigning a zero-copy matrix into an empty crs made the target the owner of user memory (or lost the aliasing)");
              auto Zb = adapter::zero_copy(n, m, ptr.data(), col.data(), val.data()); backend::crs<double> t2(*Zb);   // t2 owns a private copy
              c.check(t2.own_data || t2.nnz == 0, "crs:copy-owns", "copy of a zero-copy matrix does not own its storage"); t2 = std::move(*Zb);
              c.check(!t2.own_data, "zero_copy:ownership-after-move-assignment", "move-assigning a zero-copy matrix into an owning crs made the target the owner of user memory");
              std::vector<backend::crs<double>> pool(2); auto Zc = adapter::zero_copy(n, m, ptr.data(), col.data(), val.data()); pool[1] = std::move(*Zc);
              c.check(!pool[1].own_data, "zero_copy:ownership-after-move-assignment", "move-assigning a zero-copy matrix into a container element made it the owner of user memory"); }
            unchanged("zero_copy_move_assignment");
            unchanged("zero_copy");
            { std::vector<size_t> up(ptr.begin(), ptr.end()), uc(col.begin(), col.end()); const std::vector<size_t> up0 = up, uc0 = uc;
              { auto Z = adapter::zero_copy(n, m, up.data(), uc.data(), val.data()); c.check(arrays_identical(*Z, up.data(), uc.data(), val.data()), "zero_copy<size_t>:pointer-identity", "zero_copy does not alias the user arrays"); check_all(c, "zero_copy<size_t>", *Z, S, r); }
              c.check(up == up0 && uc == uc0, "zero_copy<size_t>:user-arrays-modified", "user arrays modified");
              std::vector<long> lp(ptr.begin(), ptr.end()); std::vector<unsigned long> lc(col.begin(), col.end());
              { auto Z = adapter::zero_copy(n, m, lp.data(), lc.data(), val.data()); check_all(c, "zero_copy<long,unsigned long>", *Z, S, r); }
              if (n == m) { auto Z = adapter::zero_copy(n, lp.data(), lc.data(), val.data()); c.check(Z->nrows == n && Z->ncols == n, "zero_copy(n):shape", "square zero_copy overload has wrong shape"); } }
            { std::vector<int> p32(ptr.begin(), ptr.end()), c32(col.begin(), col.end()); const std::vector<int> p0 = p32, c0 = c32;
              { auto Z = adapter::zero_copy_direct(n, m, p32.data(), c32.data(), val.data());
                c.check(arrays_identical(*Z, p32.data(), c32.data(), val.data()) && !Z->own_data, "zero_copy_direct:pointer-identity", "zero_copy_direct does not alias the user arrays or owns them");
                check_all(c, "zero_copy_direct<int,int>", *Z, S, r); }
              c.check(p32 == p0 && c32 == c0, "zero_copy_direct:user-arrays-modified", "user arrays modified");
              std::vector<long> lp(ptr.begin(), ptr.end());
              { auto Z = adapter::zero_copy_direct(n, m, lp.data(), c32.data(), val.data()); check_all(c, "zero_copy_direct<long,int>", *Z, S, r); }
              std::vector<unsigned> u32(col.begin(), col.end());
              { auto Z = adapter::zero_copy_direct(n, m, ptr.data(), u32.data(), val.data()); check_all(c, "zero_copy_direct<ptrdiff_t,unsigned>", *Z, S, r); } }
            unchanged("zero_copy_direct");
            if (solve) {   // a hierarchy and a solver living on user memory; the documented use of zero_copy
                std::vector<double> f = vf::random_vector(n, r), x(n, 0.0);
                { auto Z = adapter::zero_copy(n, ptr.data(), col.data(), val.data());
                  SolverF::params prm; prm.precond.coarse_enough = 40; prm.solver.maxiter = 200;
                  { SolverF slv(Z, prm);
                    c.check(slv.system_matrix_ptr().get() == Z.get() && arrays_identical(slv.system_matrix(), ptr.data(), col.data(), val.data()), "zero_copy:solver-system-matrix-identity", "the solver's system matrix is not the user's memory");
                    auto res = slv(f, x); vf::SolveSpec sp; sp.maxiter = 200;
                    vf::check_solution(c, "zero_copy_solve", A, f, x, std::get<0>(res), std::get<1>(res), sp); unchanged("zero_copy_solve"); }
                  c.check(Z.use_count() == 1, "zero_copy:leaked-reference", "a reference to the user matrix survives the solver", J().n("use_count", Z.use_count())); unchanged("zero_copy_after_solver"); }
                unchanged("zero_copy_after_release");
                // shared internal CRS: amg(shared_ptr) neither copies nor changes the matrix
                { auto P = std::make_shared<backend::crs<double>>(n, n, A.ptr, A.col, A.val); const double *vp = P->val;
                  { AMG::params ap; ap.coarse_enough = 40; AMG amgp(P, ap); c.check(amgp.system_matrix_ptr().get() == P.get() && P->val == vp, "shared_ptr<crs>:identity", "amg(shared_ptr<crs>) copied or replaced the matrix"); }
                  c.check(P.use_count() == 1, "shared_ptr<crs>:leaked-reference", "reference to the shared matrix survives the hierarchy");
                  check_rows(c, "shared_ptr<crs>(after amg)", *P, A); }
            }
            // touch every user element once more: a freed buffer is an ASan report here
            volatile double sink = 0; for (auto v : val) sink = sink + v; for (auto v : col) sink = sink + v; for (auto v : ptr) sink = sink + v; (void)sink;
            vf::obs_sum("zero_copy_cases");
        } catch (const std::exception &e) { c.fail("zerocopy:exception", e.what()); }
        if (A.nnz()) c.nontrivial();
        vf::sample("zerocopy", J().s("family", fam).n("n", n).n("nnz", A.nnz()).bl("solve", solve));
    }
}

//---------------------------------------------------------------------------
// reorder
//---------------------------------------------------------------------------
template <class Ord> void reorder_case(Case &c, const std::string &nm, const Csr<double> &A, Rng &r, bool solve, bool exact) {
    size_t n = A.n; auto T = A.tie();
    adapter::reorder<Ord> perm(T);
    std::vector<double> iota(n), pv(n); for (size_t i = 0; i < n; ++i) iota[i] = (double)i; perm.forward(iota, pv);
    std::vector<ptrdiff_t> p(n), ip(n, -1); bool isperm = true; for (size_t i = 0; i < n; ++i) { p[i] = (ptrdiff_t)pv[i]; if (p[i] < 0 || (size_t)p[i] >= n || ip[p[i]] >= 0) { isperm = false; break; } ip[p[i]] = (ptrdiff_t)i; }
    if (!c.check(isperm, nm + ":not-a-permutation", "reorder<> produced an ordering that is not a permutation of 0..n-1")) return;
    // forward / inverse / views
    std::vector<double> x = exact ? vf::random_int_vector(n, r) : vf::random_vector(n, r), fx(n), bx(n, -7.0);
    perm.forward(x, fx); perm.inverse(fx, bx); c.check(bx == x, nm + ":inverse-of-forward", "inverse(forward(x)) differs from x");
    { auto view = perm(x); bool ok = view.size() == n; for (size_t i = 0; ok && i < n; ++i) ok = view[i] == x[p[i]] && fx[i] == x[p[i]]; c.check(ok, nm + ":vector-view", "perm(x)[i] or forward(x)[i] differs from x[perm[i]]");
      const std::vector<double> &cx = x; const auto cview = perm(cx); ok = true; size_t k = 0; for (auto it = cview.begin(); it != cview.end(); ++it, ++k) ok = ok && *it == x[p[k]]; c.check(ok && k == n, nm + ":vector-view-iterators", "iteration over perm(x) differs from x[perm[i]]"); }
    // perm(A) == P A P^T : row i of the view is row perm[i] of A with columns mapped through the inverse permutation
    auto PA = perm(T);
    Csr<double> Bm(n, n); for (size_t i = 0; i < n; ++i) { for (ptrdiff_t j = A.ptr[p[i]]; j < A.ptr[p[i] + 1]; ++j) Bm.push(ip[A.col[j]], A.val[j]); Bm.end_row(); }
    Src S; S.A = Bm; S.exact = exact; S.x = fx; S.y0 = exact ? vf::random_int_vector(n, r) : vf::random_vector(n, r);
    check_all(c, nm + ":matrix-view", PA, S, r);
    // commuting diagram: (P A P^T)(P x) == P (A x), exact on integer data
    if (exact) { backend::numa_vector<double> X(x), FX(fx), Y(n), YP(n); backend::crs<double> M(n, n, A.ptr, A.col, A.val); backend::spmv(1.0, M, X, 0.0, Y); backend::spmv(1.0, PA, FX, 0.0, YP);
        bool ok = true; for (size_t i = 0; i < n; ++i) ok = ok && YP[i] == Y[p[i]]; c.check(ok, nm + ":commutes", "perm(A) forward(x) differs from forward(A x)"); }
    if (solve) {
        std::vector<double> f = vf::random_vector(n, r), xo(n, 0.0), xs(n, 0.0), fp(n);
        SolverF::params prm; prm.precond.coarse_enough = 40; prm.solver.maxiter = 200; vf::SolveSpec sp; sp.maxiter = 200;
        try { SolverF slv(PA, prm);
            // way 1 (documented): solve(perm(rhs), x_ord); perm.inverse(x_ord, x)
            { auto res = slv(perm(f), xo); perm.inverse(xo, xs); vf::check_solution(c, nm + ":solve(view-rhs)", A, f, xs, std::get<0>(res), std::get<1>(res), sp); }
            // way 2: explicit forward copy of the rhs
            { std::fill(xo.begin(), xo.end(), 0.0); perm.forward(f, fp); auto res = slv(fp, xo); perm.inverse(xo, xs); vf::check_solution(c, nm + ":solve(forward-rhs)", A, f, xs, std::get<0>(res), std::get<1>(res), sp); }
            vf::obs_sum("reorder_solves", 2);
        } catch (const std::exception &e) { c.fail(nm + ":solve:exception", e.what()); }
    }
}
// COMPOSITION: reorder<> over another adapter (permutation, P A P^T view incl. the two-iterator probe, conversion, SpMV)
template <class Mat> void reorder_over(Case &c, const std::string &nm, const Mat &Min, const Csr<double> &A, Rng &r, bool exact) {
    size_t n = A.n;
    try {
        adapter::reorder<> perm(Min); std::vector<double> iota(n), pv(n); for (size_t i = 0; i < n; ++i) iota[i] = (double)i; perm.forward(iota, pv);
        std::vector<ptrdiff_t> p(n), ip(n, -1); bool isperm = true; for (size_t i = 0; i < n; ++i) { p[i] = (ptrdiff_t)pv[i]; if (p[i] < 0 || (size_t)p[i] >= n || ip[p[i]] >= 0) { isperm = false; break; } ip[p[i]] = (ptrdiff_t)i; }
        if (!c.check(isperm, nm + ":not-a-permutation", "reorder<> over this adapter produced an ordering that is not a permutation")) return;
        auto PA = perm(Min); Csr<double> Bm(n, n); for (size_t i = 0; i < n; ++i) { for (ptrdiff_t j = A.ptr[p[i]]; j < A.ptr[p[i] + 1]; ++j) Bm.push(ip[A.col[j]], A.val[j]); Bm.end_row(); }
        Src S; S.A = Bm; S.exact = exact; S.x = exact ? vf::random_int_vector(n, r) : vf::random_vector(n, r); S.y0 = exact ? vf::random_int_vector(n, r) : vf::random_vector(n, r);
        check_all(c, nm + ":matrix-view", PA, S, r); vf::obs_sum("adapter_compositions");
    } catch (const std::exception &e) { c.fail(nm + ":exception", e.what()); }
}
// COMPOSITION: scale_diagonal over another adapter: entries s_i a_ij s_j (6 eps relative, see sub_scale), two iterators alive at once
template <class Mat> void scale_over(Case &c, const std::string &nm, const Mat &Min, const Csr<double> &A) {
    size_t n = A.n;
    try {
        auto sc = adapter::scale_diagonal<B>(Min); auto SM = sc.matrix(Min);
        std::vector<LD> s(n, 0); for (size_t i = 0; i < n; ++i) for (ptrdiff_t j = A.ptr[i]; j < A.ptr[i + 1]; ++j) if (A.col[j] == (ptrdiff_t)i) s[i] = 1 / sqrtl(fabsl((LD)A.val[j]));
        bool ok = backend::rows(SM) == n;
        for (size_t i = 0; ok && i < n; ++i) { size_t i2 = (i + 1) % n; auto a = backend::row_begin(SM, i); auto a2 = backend::row_begin(SM, i2); ptrdiff_t j = A.ptr[i], j2 = A.ptr[i2];
            auto eq = [&](auto &it, size_t row, ptrdiff_t jj) { if (jj >= A.ptr[row + 1] || (ptrdiff_t)it.col() != A.col[jj]) return false; LD ref = s[row] * A.val[jj] * s[A.col[jj]]; return (bool)(fabsl((LD)it.value() - ref) <= 6 * 2.22e-16L * fabsl(ref)); };
            while (ok && (a || a2)) { if (a) { ok = eq(a, i, j); ++a; ++j; } if (ok && a2) { ok = eq(a2, i2, j2); ++a2; ++j2; } }
            if (ok && (j != A.ptr[i + 1] || j2 != A.ptr[i2 + 1])) ok = false; }
        c.check(ok, nm + ":matrix", "scaled matrix over this adapter differs from a_ij / sqrt(|a_ii| |a_jj|) (two row iterators alive at once)"); vf::obs_sum("adapter_compositions"); vf::obs_sum("two_iterator_probes");
    } catch (const std::exception &e) { c.fail(nm + ":exception", e.what()); }
}
// the adapters a composition is built over (sorted, square source)
template <bool with_crs_like, class F> void over_adapters(const Csr<double> &A, F fn) {
    size_t n = A.n; std::vector<double> val = A.val;
    if constexpr (with_crs_like) { RowBuilder rb{&A}; auto Bm = adapter::make_matrix(rb); fn("crs_builder", Bm); }
    if constexpr (with_crs_like) { std::vector<ptrdiff_t> p = A.ptr, cl = A.col; auto Z = adapter::zero_copy(n, p.data(), cl.data(), val.data()); fn("zero_copy", *Z); }
    { std::vector<int> p(A.ptr.begin(), A.ptr.end()), cl(A.col.begin(), A.col.end()); Eigen::Map<Eigen::SparseMatrix<double, Eigen::RowMajor, int>> EM(n, n, A.nnz(), p.data(), cl.data(), val.data()); fn("eigen_map", EM); }
    if (is_sorted(A)) { Eigen::SparseMatrix<double, Eigen::RowMajor, int> E(n, n); std::vector<Eigen::Triplet<double>> tr; for (size_t i = 0; i < n; ++i) for (ptrdiff_t j = A.ptr[i]; j < A.ptr[i + 1]; ++j) tr.emplace_back((int)i, (int)A.col[j], A.val[j]);
        E.setFromTriplets(tr.begin(), tr.end()); E.makeCompressed(); fn("eigen_sparse", E);
        Eigen::SparseMatrix<double, Eigen::RowMajor, int> U(n, n); U.reserve(Eigen::VectorXi::Constant(n, (int)n + 2)); for (size_t i = 0; i < n; ++i) for (ptrdiff_t j = A.ptr[i]; j < A.ptr[i + 1]; ++j) U.insert((int)i, (int)A.col[j]) = A.val[j];
        fn("eigen_sparse_uncompressed", U); }
}
static void sub_reorder() {
    long N = vf::tier(150, 2400);
    for (long idx = 0; idx < N; ++idx) {
        if (!vf::selected("reorder", idx)) continue;
        Rng r(vf::case_seed("reorder", idx)); bool solve = idx % 3 == 0, exact = !solve && r.coin(0.6); std::string fam; Csr<double> A;
        if (solve) A = solve_matrix(r, (int)(idx / 3 % 3), 60, vf::thorough() ? 3000 : 800, fam);
        else { fam = "random-symmetric-pattern"; size_t n = r.range(1, 60); A = vf::random_dd(n, r.uni(0.05, 0.5), r, true); if (exact) for (auto &v : A.val) v = (double)(long)(v * 8); }
        Case c("reorder", idx, J().s("family", fam).n("n", A.n).n("nnz", A.nnz()).bl("solve", solve).bl("exact", exact));
        try { reorder_case<reorder::cuthill_mckee<false>>(c, "reorder<cuthill_mckee>", A, r, solve, exact);
              reorder_case<reorder::cuthill_mckee<true>>(c, "reorder<reverse_cuthill_mckee>", A, r, solve && idx % 2 == 0, exact);
              if (!solve) over_adapters<true>(A, [&](const std::string &inner, const auto &Min) { reorder_over(c, "reorder(" + inner + ")", Min, A, r, exact); }); }
        catch (const std::exception &e) { c.fail("reorder:exception", e.what()); }
        c.nontrivial(); vf::sample("reorder", J().s("family", fam).n("n", A.n).n("nnz", A.nnz()).bl("solve", solve));
    }
}

//---------------------------------------------------------------------------
// scale_diagonal
//---------------------------------------------------------------------------
static void sub_scale() {
    long N = vf::tier(150, 2400);
    for (long idx = 0; idx < N; ++idx) {
        if (!vf::selected("scale", idx)) continue;
        Rng r(vf::case_seed("scale", idx)); bool solve = idx % 3 == 0; std::string fam; Csr<double> A;
        if (solve) { A = solve_matrix(r, (int)(idx / 3 % 3), 60, vf::thorough() ? 3000 : 800, fam);
            // make the scaling matter: symmetric diagonal rescaling S A S with a wide spread keeps SPD-ness / M-matrix sign pattern
            std::vector<double> w(A.n); for (auto &v : w) v = r.logu(0.05, 20.0); for (size_t i = 0; i < A.n; ++i) for (ptrdiff_t j = A.ptr[i]; j < A.ptr[i + 1]; ++j) A.val[j] *= w[i] * w[A.col[j]]; }
        else { fam = "random-dd"; A = vf::random_dd((size_t)r.range(1, 60), r.uni(0.05, 0.5), r, r.coin()); if (r.coin(0.3)) A = vf::shuffle_rows(A, r); }
        size_t n = A.n; Case c("scale", idx, J().s("family", fam).n("n", n).n("nnz", A.nnz()).bl("solve", solve));
        try {
            auto T = A.tie(); auto sc = adapter::scale_diagonal<B>(T); auto SM = sc.matrix(T);
            std::vector<LD> s(n, 0); std::vector<double> dia(n, 0); for (size_t i = 0; i < n; ++i) for (ptrdiff_t j = A.ptr[i]; j < A.ptr[i + 1]; ++j) if (A.col[j] == (ptrdiff_t)i) { dia[i] = A.val[j]; s[i] = 1 / sqrtl(fabsl((LD)A.val[j])); }
            c.check(backend::rows(SM) == n && backend::cols(SM) == n && backend::nonzeros(SM) == A.nnz(), "scale_diagonal:shape", "scaled matrix shape / nonzeros differ from the source");
            // entries: s_i a_ij s_j, three roundings (1/sqrt: 2, products: 2) => 6 eps relative
            bool ok = true; double worst = 0; for (size_t i = 0; ok && i < n; ++i) { ptrdiff_t j = A.ptr[i]; for (auto a = backend::row_begin(SM, i); a; ++a, ++j) { if (j >= A.ptr[i + 1] || (ptrdiff_t)a.col() != A.col[j]) { ok = false; break; }
                    LD ref = s[i] * A.val[j] * s[A.col[j]], d = fabsl((LD)a.value() - ref); worst = std::max(worst, (double)(d / fabsl(ref))); if (!(d <= 6 * 2.22e-16L * fabsl(ref))) ok = false; } if (j != A.ptr[i + 1]) ok = false; }
            c.check(ok, "scale_diagonal:matrix", "scaled matrix entries differ from a_ij / sqrt(|a_ii| |a_jj|)", J().n("worst_rel", worst)); vf::obs_max("max_scaled_entry_rel_err", worst);
            { bool dok = true; for (size_t i = 0; dok && i < n; ++i) for (auto a = backend::row_begin(SM, i); a; ++a) if ((size_t)a.col() == i && !(std::fabs(std::fabs(a.value()) - 1) <= 4 * 2.22e-16)) dok = false; c.check(dok, "scale_diagonal:unit-diagonal", "scaled matrix does not have a unit-modulus diagonal"); }
            std::vector<double> f = vf::random_vector(n, r); auto fs = sc.rhs(f); bool rok = fs->size() == n; for (size_t i = 0; rok && i < n; ++i) rok = fabsl((LD)(*fs)[i] - s[i] * f[i]) <= 4 * 2.22e-16L * fabsl(s[i] * f[i]);
            c.check(rok, "scale_diagonal:rhs", "scaled rhs differs from f_i / sqrt(|a_ii|)");
            { std::vector<double> g = f; sc(g); bool gok = true; for (size_t i = 0; i < n; ++i) gok = gok && g[i] == (*fs)[i]; c.check(gok, "scale_diagonal:in-place", "in-place scaling differs from rhs()"); }
            // (scaled_matrix::row_iterator constructs its base as Base(A, i): only tuple and Eigen iterators offer that constructor,
            //  scale_diagonal over crs_builder / crs (zero_copy) does not compile and is therefore not a run-time case)
            if (!solve) over_adapters<false>(A, [&](const std::string &inner, const auto &Min) { scale_over(c, "scale_diagonal(" + inner + ")", Min, A); });
            if (solve) {
                SolverF::params prm; prm.precond.coarse_enough = 40; prm.solver.maxiter = 200; SolverF slv(SM, prm);
                std::vector<double> x(n, 0.0); auto res = slv(*fs, x); sc(x);           // x = D^1/2 y
                // the solver reports the residual of the scaled system: D^1/2 (f - A x) relative to D^1/2 f.  Evaluate that from the ORIGINAL data:
                Csr<double> As = A; std::vector<double> fsd(n); for (size_t i = 0; i < n; ++i) { fsd[i] = (double)(s[i] * f[i]); for (ptrdiff_t j = A.ptr[i]; j < A.ptr[i + 1]; ++j) As.val[j] = (double)(s[i] * A.val[j]); }
                vf::SolveSpec sp; sp.maxiter = 200; double tv = 0;
                // As x = D^1/2 A x with one extra rounding per entry: covered by the forward term of the bound (8 u (maxrow+3) ...)
                vf::check_solution(c, "scale_diagonal:solve", As, fsd, x, std::get<0>(res), std::get<1>(res), sp, &tv);
                double dmax = 0, dmin = 1e300; for (double d : dia) { dmax = std::max(dmax, std::fabs(d)); dmin = std::min(dmin, std::fabs(d)); }
                double orig = vf::true_relres(A, f, x), bound = std::sqrt(dmax / dmin) * (tv * (1 + 1e-9));
                c.check_le(orig, bound, "scale_diagonal:solve:original-residual", "residual of the post-scaled solution in the original system exceeds sqrt(max a_ii/min a_ii) times the scaled residual");
                vf::obs_sum("scale_solves");
            }
        } catch (const std::exception &e) { c.fail("scale_diagonal:exception", e.what()); }
        c.nontrivial(); vf::sample("scale", J().s("family", fam).n("n", n).n("nnz", A.nnz()).bl("solve", solve));
    }
}

int main(int argc, char **argv) {
    vf::init(argc, argv);
    vf::obs_add("threads_seen", std::to_string(omp_get_max_threads()));
    if (vf::sub_enabled("adapters")) sub_adapters();
    if (vf::sub_enabled("block_adapter")) sub_block();
    if (vf::sub_enabled("zerocopy")) sub_zerocopy();
    if (vf::sub_enabled("reorder")) sub_reorder();
    if (vf::sub_enabled("scale")) sub_scale();
    return vf::finish();
}
