// C17 (part 2) -- input row order does not matter (DESIGN.md 5/C17).
// For every preconditioner class that accepts a user matrix the object built from a matrix whose
// row entries are listed in arbitrary order must act like the one built from the sorted matrix.
// Oracle (D): the action is extracted column by column (n <= 160: the complete dense operator;
// larger n: 6 random right-hand sides) and compared with max|B1 - B2| <= 1e-12 max|B1| -- bitwise
// equality is not demanded because a correct implementation may sum a row in input order
// (rounding ~ 1e-16 relative), while a mis-handled row order changes the operator at O(1e-2).
// An exception / assertion on the shuffled (valid, duplicate-free) matrix is a violation.
#include <amgcl/backend/builtin.hpp>
#include <amgcl/adapter/crs_tuple.hpp>
#include <amgcl/amg.hpp>
#include <amgcl/make_solver.hpp>
#include <amgcl/coarsening/runtime.hpp>
#include <amgcl/relaxation/runtime.hpp>
#include <amgcl/coarsening/smoothed_aggregation.hpp>
#include <amgcl/relaxation/as_preconditioner.hpp>
#include <amgcl/preconditioner/cpr.hpp>
#include <amgcl/preconditioner/cpr_drs.hpp>
#include <amgcl/preconditioner/schur_pressure_correction.hpp>
#include <amgcl/solver/cg.hpp>
#include <amgcl/solver/fgmres.hpp>
#include <amgcl/solver/preonly.hpp>
#include <vf/hooks.hpp>
#include <vf/solvecheck.hpp>
#include <omp.h>
#include <memory>
#include <numeric>

using namespace amgcl;
using vf::Csr; using vf::J; using vf::Rng; using vf::Case;
// set-valued observations are comma lists: keep commas out of the tokens
static std::string tok(std::string s) { for (auto &ch : s) if (ch == ',') ch = ';'; return s; }
typedef backend::builtin<double> B;
typedef amg<B, coarsening::smoothed_aggregation, relaxation::spai0> AMG;
typedef amg<B, runtime::coarsening::wrapper, runtime::relaxation::wrapper> RAMG;

static const char *RELAX[9] = {"damped_jacobi", "spai0", "spai1", "gauss_seidel", "ilu0", "iluk", "ilut", "ilup", "chebyshev"};
static const char *COARS[4] = {"smoothed_aggregation", "aggregation", "ruge_stuben", "smoothed_aggr_emin"};

static bool has_diag_and_no_dups(const Csr<double> &A) {
    for (size_t i = 0; i < A.n; ++i) { bool d = false; std::vector<ptrdiff_t> cs(A.col.begin() + A.ptr[i], A.col.begin() + A.ptr[i + 1]); std::sort(cs.begin(), cs.end());
        for (size_t k = 0; k < cs.size(); ++k) { if (cs[k] == (ptrdiff_t)i) d = true; if (k && cs[k] == cs[k - 1]) return false; } if (!d) return false; }
    return true;
}

// Dense (n <= 160) or sampled action of a preconditioner, column-major.
template <class P> std::vector<double> action(const P &p, size_t n, uint64_t seed) {
    size_t ncols = n <= 160 ? n : 6; std::vector<double> out(n * ncols), f(n, 0.0), x(n); Rng r(seed);
    for (size_t j = 0; j < ncols; ++j) {
        if (n <= 160) { std::fill(f.begin(), f.end(), 0.0); f[j] = 1; } else for (auto &v : f) v = r.uni(-1, 1);
        std::fill(x.begin(), x.end(), 0.0); p.apply(f, x); std::copy(x.begin(), x.end(), out.begin() + j * n);
    }
    return out;
}
struct Diff { double rel; bool finite; double scale; };
static Diff action_diff(const std::vector<double> &a, const std::vector<double> &b) {
    double d = 0, s = 0; bool fin = true; for (size_t i = 0; i < a.size(); ++i) { if (!std::isfinite(a[i]) || !std::isfinite(b[i])) fin = false; d = std::max(d, std::fabs(a[i] - b[i])); s = std::max(s, std::fabs(a[i])); }
    return Diff{fin && s > 0 ? d / s : std::numeric_limits<double>::infinity(), fin, s};
}
// Fill freed heap memory with a byte pattern (blocks of many sizes), so that a constructor that reads
// uninitialised memory (a C10 matter, e.g. DESIGN.md section 8 F3) behaves differently in two builds from
// the SAME input and is recognised as a non-reproducible reference instead of being blamed on row order.
static void poison_heap(unsigned char byte) {
    std::vector<void*> blocks;
    for (size_t sz = 16; sz <= 1040; sz += 16) for (int k = 0; k < 9; ++k) { void *p = malloc(sz); if (p) { memset(p, byte, sz); blocks.push_back(p); } }
    for (size_t sz = 2048; sz <= 65536; sz *= 2) for (int k = 0; k < 24; ++k) { void *p = malloc(sz - 64); if (p) { memset(p, byte, sz - 64); blocks.push_back(p); } }
    for (void *p : blocks) free(p);
}

// Build P from the sorted matrix twice (different heap garbage) and from the shuffled matrix; `make` is a
// callable (matrix) -> unique_ptr<P>.  Row-order dependence is asserted only against a reproducible reference.
template <class Make> void roworder(Case &c, const std::string &nm, const Csr<double> &A, const Csr<double> &Ash, Make make, Rng &r) {
    vf::obs_add("classes_seen", tok(nm)); uint64_t seed = r.next();
    decltype(make(A)) p1, p1b, p2; std::vector<double> B1, B1b, B2;
    try { poison_heap(0x00); p1 = make(A); B1 = action(*p1, A.n, seed); poison_heap(0xFF); p1b = make(A); B1b = action(*p1b, A.n, seed); }
    catch (const std::exception &e) { vf::obs_sum("sorted_reference_threw"); vf::obs_add("sorted_reference_threw_for", tok(nm)); return; }   // class / generator limitation, unrelated to row order
    Diff d0 = action_diff(B1, B1b);
    if (!d0.finite || !(d0.scale > 0)) { vf::obs_sum("degenerate_sorted_reference"); vf::obs_add("degenerate_sorted_reference_for", tok(nm)); return; }
    if (!(d0.rel <= 1e-12)) { vf::obs_sum("reference_not_reproducible"); vf::obs_add("reference_not_reproducible_for", tok(nm)); vf::obs_max("max_rel_difference_of_two_builds_from_identical_input", d0.rel); return; }
    try { poison_heap(0xFF); p2 = make(Ash); } catch (const std::exception &e) { c.fail(nm + ":exception-on-unsorted-rows", std::string("constructor threw on a valid matrix with shuffled rows: ") + e.what()); return; }
    try { B2 = action(*p2, A.n, seed); } catch (const std::exception &e) { c.fail(nm + ":apply-exception", e.what()); return; }
    Diff d = action_diff(B1, B2);
    vf::obs_max("max_rel_action_difference", std::isfinite(d.rel) ? d.rel : 1e300); vf::obs_sum("actions_compared");
    c.check_le(d.rel, 1e-12, nm + ":action-differs-on-unsorted-rows", "object built from the row-shuffled matrix acts differently from the one built from the sorted matrix (relative to max|B|)");
}

//---------------------------------------------------------------------------
// generators
//---------------------------------------------------------------------------
static Csr<double> scalar_matrix(Rng &r, long idx, std::string &fam) {
    switch (idx % 5) {
        case 0: { fam = "grid"; vf::GridSpec g; g.nx = (int)r.range(4, 14); g.ny = (int)r.range(4, 12); g.contrast = r.logu(1, 10); g.nine = r.coin(0.3); return vf::grid_diffusion(g, r); }
        case 1: { fam = "graph"; return vf::graph_laplacian((size_t)r.range(20, 150), r.uni(3, 6), r, r.coin(), true); }
        case 2: { fam = "convdiff"; return vf::convdiff((int)r.range(4, 12), (int)r.range(4, 12), r.uni(0.1, 3), r, r.coin(0.3)); }
        case 3: { fam = "random_dd_sympat"; return vf::random_dd((size_t)r.range(10, 120), r.uni(0.03, 0.2), r, true, 1.5); }
        default: { fam = "grid_large"; vf::GridSpec g; g.nx = (int)r.range(15, 30); g.ny = (int)r.range(12, 25); g.contrast = r.logu(1, 10); return vf::grid_diffusion(g, r); }
    }
}
// reservoir-like b-phase block system on a grid graph: full b x b blocks, first unknown pressure-like, strictly row diagonally dominant
static Csr<double> reservoir(Rng &r, int b, size_t &cells) {
    vf::GridSpec g; g.nx = (int)r.range(3, 10); g.ny = (int)r.range(2, 8); Csr<double> G = vf::grid_diffusion(g, r); cells = G.n;
    Csr<double> A(G.n * b, G.n * b);
    for (size_t I = 0; I < G.n; ++I) for (int k = 0; k < b; ++k) {
        size_t row = I * b + k; double off = 0; size_t dpos = 0;
        for (ptrdiff_t j = G.ptr[I]; j < G.ptr[I + 1]; ++j) for (int l = 0; l < b; ++l) {
            size_t col = (size_t)G.col[j] * b + l; double v;
            if ((size_t)G.col[j] == I) v = (k == l) ? 0.0 : r.uni(-0.3, 0.3); else v = (k == l) ? -r.uni(0.5, 1.5) : r.uni(-0.15, 0.15);
            if (col == row) dpos = A.col.size(); else off += std::fabs(v);
            A.push((ptrdiff_t)col, v);
        }
        A.val[dpos] = 1.1 * off + r.uni(0.5, 1.5); A.end_row();
    }
    return A;
}

typedef relaxation::as_preconditioner<B, relaxation::spai0> SP0;
typedef relaxation::as_preconditioner<B, relaxation::ilu0> SPI;

template <template <class> class R> void relax_case(Case &c, const std::string &rn, const Csr<double> &A, const Csr<double> &Ash, Rng &r) {
    typedef relaxation::as_preconditioner<B, R> P;
    roworder(c, "as_preconditioner<" + rn + ">", A, Ash, [&](const Csr<double> &M) { return std::unique_ptr<P>(new P(M.tie())); }, r);
}

static void sub_relax() {
    long N = vf::tier(150, 3000);
    for (long idx = 0; idx < N; ++idx) {
        if (!vf::selected("roworder_relax", idx)) continue;
        Rng r(vf::case_seed("roworder_relax", idx)); std::string fam; Csr<double> A = scalar_matrix(r, idx, fam); bool rev = idx % 4 == 3; Csr<double> Ash = vf::shuffle_rows(A, r, rev);
        if (!has_diag_and_no_dups(A) || !has_diag_and_no_dups(Ash)) { fprintf(stderr, "harness: generator produced an invalid matrix\n"); exit(3); }
        Case c("roworder_relax", idx, J().s("family", fam).n("n", A.n).n("nnz", A.nnz()).s("shuffle", rev ? "reversed" : "random").n("threads", omp_get_max_threads()));
        relax_case<relaxation::damped_jacobi>(c, RELAX[0], A, Ash, r); relax_case<relaxation::spai0>(c, RELAX[1], A, Ash, r); relax_case<relaxation::spai1>(c, RELAX[2], A, Ash, r);
        relax_case<relaxation::gauss_seidel>(c, RELAX[3], A, Ash, r); relax_case<relaxation::ilu0>(c, RELAX[4], A, Ash, r); relax_case<relaxation::iluk>(c, RELAX[5], A, Ash, r);
        relax_case<relaxation::ilut>(c, RELAX[6], A, Ash, r); relax_case<relaxation::ilup>(c, RELAX[7], A, Ash, r); relax_case<relaxation::chebyshev>(c, RELAX[8], A, Ash, r);
        c.nontrivial(9); vf::sample("roworder_relax", J().s("family", fam).n("n", A.n).n("nnz", A.nnz()).s("shuffle", rev ? "reversed" : "random"));
    }
}

static void sub_amg() {
    long N = vf::tier(144, 2880);
    for (long idx = 0; idx < N; ++idx) {
        if (!vf::selected("roworder_amg", idx)) continue;
        Rng r(vf::case_seed("roworder_amg", idx)); std::string fam; Csr<double> A = scalar_matrix(r, idx, fam); bool rev = idx % 4 == 3; Csr<double> Ash = vf::shuffle_rows(A, r, rev);
        const char *co = COARS[idx % 4], *re = RELAX[(idx / 4) % 9];
        Case c("roworder_amg", idx, J().s("family", fam).n("n", A.n).n("nnz", A.nnz()).s("coarsening", co).s("relax", re).s("shuffle", rev ? "reversed" : "random").n("threads", omp_get_max_threads()));
        boost::property_tree::ptree p; p.put("coarsening.type", co); p.put("relax.type", re); p.put("coarse_enough", (int)r.range(5, 25));
        size_t levels = 0;
        roworder(c, std::string("amg<") + co + "," + re + ">", A, Ash, [&](const Csr<double> &M) { std::unique_ptr<RAMG> a(new RAMG(M.tie(), p)); std::ostringstream os; os << *a; std::string s = os.str(); size_t pos = s.find("Number of levels:"); if (pos != std::string::npos) levels = std::max<size_t>(levels, atoi(s.c_str() + pos + 17)); return a; }, r);
        // rebuild(): the hierarchy is built once from the sorted matrix (allow_rebuild) and then rebuilt with the matrix under test
        // (a mildly perturbed copy, sorted resp. shuffled): "built from a matrix whose row entries are listed in arbitrary order"
        // also covers the matrix handed to rebuild().  (added after a seeded change dropped the sort in rebuild(const Matrix&))
        { boost::property_tree::ptree pr = p; pr.put("allow_rebuild", true); Csr<double> Ap = A, Apsh = Ash; for (auto &v : Ap.val) v *= 1.25; for (auto &v : Apsh.val) v *= 1.25;
          roworder(c, std::string("amg.rebuild<") + co + "," + re + ">", Ap, Apsh, [&](const Csr<double> &M) { std::unique_ptr<RAMG> a(new RAMG(A.tie(), pr)); a->rebuild(M.tie()); return a; }, r); }
        // make_solver: the bundled system matrix must be the same operator, the solve must return a solution of the original system
        { typedef make_solver<RAMG, solver::fgmres<B>> S; boost::property_tree::ptree sp; sp.put_child("precond", p); sp.put("solver.maxiter", 200);
          std::vector<double> f = vf::random_vector(A.n, r); bool ref_ok = true, ref_conv = false;
          try { S s1(A.tie(), sp); std::vector<double> x1(A.n, 0.0); auto r1 = s1(f, x1); double t1 = vf::true_relres(A, f, x1); ref_conv = std::get<1>(r1) <= 1e-8 && t1 <= 1.001e-8;
                if (!std::isfinite(t1) || !std::isfinite(std::get<1>(r1))) { ref_ok = false; vf::obs_sum("degenerate_sorted_reference"); } }   // NaN hierarchy from the sorted matrix already (C01/C02 matter)
          catch (const std::exception &) { ref_ok = false; vf::obs_sum("sorted_reference_threw"); }   // class / generator limitation (e.g. singular coarse matrix), not a row-order matter
          if (ref_ok) try { S s2(Ash.tie(), sp); std::vector<double> x(A.n, 0.0); auto res = s2(f, x); vf::SolveSpec spec; spec.maxiter = 200; spec.must_converge = ref_conv;   // must solve whenever the solver built from the sorted matrix does
                vf::check_solution(c, "make_solver<amg,fgmres>(unsorted)", A, f, x, std::get<0>(res), std::get<1>(res), spec);
                // system matrix of the bundle vs the user's matrix (amg sorts its private copy)
                backend::numa_vector<double> X(f), Y(A.n); backend::spmv(1.0, s2.system_matrix(), X, 0.0, Y); auto ref = vf::spmv_ld(A, f); bool ok = true; for (size_t i = 0; i < A.n; ++i) { long double ac = 0; for (auto j = A.ptr[i]; j < A.ptr[i + 1]; ++j) ac += fabsl((long double)A.val[j] * f[A.col[j]]); if (!(fabsl(Y[i] - ref[i]) <= 2 * (A.ptr[i + 1] - A.ptr[i] + 4) * 2.22e-16L * ac)) ok = false; }
                c.check(ok, "make_solver:system-matrix", "system_matrix() of a solver built from unsorted rows is not the user's operator"); }
          catch (const std::exception &e) { c.fail("make_solver<amg,fgmres>:exception-on-unsorted-rows", e.what()); } }
        if (levels >= 2) c.nontrivial(); vf::obs_max("max_levels", (double)levels);
        vf::sample("roworder_amg", J().s("family", fam).n("n", A.n).s("coarsening", co).s("relax", re).n("levels", levels));
    }
}

static void sub_coupled() {
    long N = vf::tier(100, 2000);
    for (long idx = 0; idx < N; ++idx) {
        if (!vf::selected("roworder_coupled", idx)) continue;
        Rng r(vf::case_seed("roworder_coupled", idx)); int b = 2 + (int)(idx % 2); size_t cells; Csr<double> A = reservoir(r, b, cells); bool rev = idx % 4 == 3; Csr<double> Ash = vf::shuffle_rows(A, r, rev); size_t n = A.n;
        if (!has_diag_and_no_dups(A) || !has_diag_and_no_dups(Ash)) { fprintf(stderr, "harness: generator produced an invalid matrix\n"); exit(3); }
        Case c("roworder_coupled", idx, J().s("family", "reservoir").n("block", b).n("cells", cells).n("n", n).n("nnz", A.nnz()).s("shuffle", rev ? "reversed" : "random").n("threads", omp_get_max_threads()));
        { typedef preconditioner::cpr<AMG, SP0> P; typename P::params prm; prm.block_size = b; prm.pprecond.coarse_enough = 8;
          roworder(c, "cpr<amg,spai0>", A, Ash, [&](const Csr<double> &M) { return std::unique_ptr<P>(new P(M.tie(), prm)); }, r); }
        { typedef preconditioner::cpr_drs<AMG, SP0> P; typename P::params prm; prm.block_size = b; prm.pprecond.coarse_enough = 8;
          roworder(c, "cpr_drs<amg,spai0>", A, Ash, [&](const Csr<double> &M) { return std::unique_ptr<P>(new P(M.tie(), prm)); }, r); }
        if (idx % 2 == 0) { typedef preconditioner::cpr<AMG, SPI> P; typename P::params prm; prm.block_size = b; prm.pprecond.coarse_enough = 8;
          roworder(c, "cpr<amg,ilu0>", A, Ash, [&](const Csr<double> &M) { return std::unique_ptr<P>(new P(M.tie(), prm)); }, r); }
        // partial_update(): built from the sorted matrix, then updated with the (mildly rescaled) matrix under test, sorted resp. shuffled --
        // the matrix handed to partial_update is a user matrix too.  (added after a seeded change dropped the sort there)
        { Csr<double> Ap = A, Apsh = Ash; for (auto &v : Ap.val) v *= 1.25; for (auto &v : Apsh.val) v *= 1.25;
          { typedef preconditioner::cpr<AMG, SP0> P; typename P::params prm; prm.block_size = b; prm.pprecond.coarse_enough = 8;
            roworder(c, "cpr.partial_update<amg,spai0>", Ap, Apsh, [&](const Csr<double> &M) { std::unique_ptr<P> q(new P(A.tie(), prm)); q->partial_update(M.tie(), true); return q; }, r); }
          { typedef preconditioner::cpr_drs<AMG, SP0> P; typename P::params prm; prm.block_size = b; prm.pprecond.coarse_enough = 8;
            roworder(c, "cpr_drs.partial_update<amg,spai0>", Ap, Apsh, [&](const Csr<double> &M) { std::unique_ptr<P> q(new P(A.tie(), prm)); q->partial_update(M.tie(), true); return q; }, r); }
          if (idx % 2 == 1) { typedef preconditioner::cpr<AMG, SPI> P; typename P::params prm; prm.block_size = b; prm.pprecond.coarse_enough = 8;
            roworder(c, "cpr.partial_update<amg,ilu0>", Ap, Apsh, [&](const Csr<double> &M) { std::unique_ptr<P> q(new P(A.tie(), prm)); q->partial_update(M.tie(), idx % 4 == 1); return q; }, r); } }
        { typedef make_solver<AMG, solver::preonly<B>> US; typedef make_solver<SP0, solver::preonly<B>> PS; typedef preconditioner::schur_pressure_correction<US, PS> P;
          for (int type = 1; type <= 2; ++type) { typename P::params prm; prm.type = type; prm.approx_schur = (idx / 2) % 2; prm.adjust_p = (int)((idx / 4) % 3); prm.pmask.assign(n, 0); for (size_t i = 0; i < n; ++i) prm.pmask[i] = (i % b == (size_t)(b - 1)); prm.usolver.precond.coarse_enough = 8;
            roworder(c, "schur_pressure_correction<type" + std::to_string(type) + ">", A, Ash, [&](const Csr<double> &M) { return std::unique_ptr<P>(new P(M.tie(), prm)); }, r); } }
        // make_solver over a coupled preconditioner built from unsorted rows must still return a solution of the original system
        { typedef make_solver<preconditioner::cpr<AMG, SP0>, solver::fgmres<B>> S; typename S::params prm; prm.precond.block_size = b; prm.precond.pprecond.coarse_enough = 8; prm.solver.maxiter = 300;
          std::vector<double> f = vf::random_vector(n, r); bool ref_ok = true, ref_conv = false;
          try { S s1(A.tie(), prm); std::vector<double> x1(n, 0.0); auto r1 = s1(f, x1); double t1 = vf::true_relres(A, f, x1); ref_conv = std::get<1>(r1) <= 1e-8 && t1 <= 1.001e-8; if (!std::isfinite(t1) || !std::isfinite(std::get<1>(r1))) { ref_ok = false; vf::obs_sum("degenerate_sorted_reference"); } } catch (const std::exception &) { ref_ok = false; vf::obs_sum("sorted_reference_threw"); }
          if (ref_ok) try { S s2(Ash.tie(), prm); std::vector<double> x(n, 0.0); auto res = s2(f, x); vf::SolveSpec spec; spec.maxiter = 300; spec.must_converge = ref_conv; vf::check_solution(c, "make_solver<cpr,fgmres>(unsorted)", A, f, x, std::get<0>(res), std::get<1>(res), spec); }
          catch (const std::exception &e) { c.fail("make_solver<cpr,fgmres>:exception-on-unsorted-rows", e.what()); } }
        c.nontrivial(5); vf::sample("roworder_coupled", J().n("block", b).n("cells", cells).n("n", n).s("shuffle", rev ? "reversed" : "random"));
    }
}

//---------------------------------------------------------------------------
// exhaustive: EVERY permutation of the entries within each row of small matrices
//---------------------------------------------------------------------------
// k-th permutation (factorial number system) of the entries of every row; t is a mixed-radix index over the rows
static Csr<double> permuted(const Csr<double> &A, uint64_t t) {
    Csr<double> Bm = A;
    for (size_t i = 0; i < A.n; ++i) { size_t L = A.ptr[i + 1] - A.ptr[i]; uint64_t f = 1; for (size_t k = 2; k <= L; ++k) f *= k; uint64_t code = t % f; t /= f;
        std::vector<ptrdiff_t> pool(L); std::iota(pool.begin(), pool.end(), A.ptr[i]);
        for (size_t k = 0; k < L; ++k) { uint64_t ff = 1; for (size_t q = 2; q <= L - 1 - k; ++q) ff *= q; size_t pick = (size_t)(code / ff); code %= ff; Bm.col[A.ptr[i] + k] = A.col[pool[pick]]; Bm.val[A.ptr[i] + k] = A.val[pool[pick]]; pool.erase(pool.begin() + pick); } }
    return Bm;
}
static uint64_t perm_count(const Csr<double> &A) { uint64_t t = 1; for (size_t i = 0; i < A.n; ++i) { size_t L = A.ptr[i + 1] - A.ptr[i]; for (size_t k = 2; k <= L; ++k) t *= k; } return t; }

template <class Make> void exhaustive_class(Case &c, const std::string &nm, const Csr<double> &A, const std::vector<Csr<double>> &perms, Make make) {
    vf::obs_add("classes_seen_exhaustive", tok(nm)); decltype(make(A)) p1, p1b; std::vector<double> B1, B1b;
    try { poison_heap(0x00); p1 = make(A); B1 = action(*p1, A.n, 1); poison_heap(0xFF); p1b = make(A); B1b = action(*p1b, A.n, 1); } catch (const std::exception &) { vf::obs_sum("sorted_reference_threw"); vf::obs_add("sorted_reference_threw_for", tok(nm)); return; }
    Diff d0 = action_diff(B1, B1b); if (!d0.finite || !(d0.scale > 0) || !(d0.rel <= 1e-12)) { vf::obs_sum("reference_not_reproducible"); vf::obs_add("reference_not_reproducible_for", tok(nm)); return; }
    size_t bad = 0, thrown = 0; double worst = 0; std::string what;
    for (auto &Ash : perms) { try { auto p2 = make(Ash); Diff d = action_diff(B1, action(*p2, A.n, 1)); if (!(d.rel <= 1e-12)) ++bad; worst = std::max(worst, std::isfinite(d.rel) ? d.rel : 1e300); } catch (const std::exception &e) { ++thrown; what = e.what(); } vf::obs_sum("actions_compared"); vf::obs_sum("permutations_enumerated"); }
    c.check(thrown == 0, nm + ":exception-on-unsorted-rows", "constructor threw on a valid matrix with permuted row entries: " + what, J().n("permutations_throwing", thrown).n("of", perms.size()));
    c.check(bad == 0, nm + ":action-differs-on-unsorted-rows", "object built from a matrix with permuted row entries acts differently from the one built from the sorted matrix", J().n("permutations_differing", bad).n("of", perms.size()).n("worst_rel", worst));
}

static void sub_exhaustive() {
    // matrix 0: 3 x 3 full, non-symmetric, strictly diagonally dominant        (3!)^3 = 216 orders
    // matrix 1: 4 x 4 cyclic tridiagonal, non-symmetric, 3 entries per row      (3!)^4 = 1296 orders
    // matrix 2: 2 cells x 2 phases, own 2 x 2 block + same-phase coupling to the other cell, 3 entries per row: 1296 orders (cpr, cpr_drs, schur)
    std::vector<Csr<double>> mats(3);
    { std::vector<std::tuple<ptrdiff_t, ptrdiff_t, double>> t = {{0,0,5.0},{0,1,-1.0},{0,2,-2.0},{1,0,-1.5},{1,1,6.0},{1,2,-0.5},{2,0,0.75},{2,1,-2.5},{2,2,7.0}}; mats[0] = vf::from_triplets<double>(3, 3, t); }
    { std::vector<std::tuple<ptrdiff_t, ptrdiff_t, double>> t; for (int i = 0; i < 4; ++i) { t.emplace_back(i, i, 4.0 + 0.5 * i); t.emplace_back(i, (i + 1) % 4, -1.0 - 0.25 * i); t.emplace_back(i, (i + 3) % 4, -1.5 + 0.125 * i); } mats[1] = vf::from_triplets<double>(4, 4, t); }
    { std::vector<std::tuple<ptrdiff_t, ptrdiff_t, double>> t; for (int cell = 0; cell < 2; ++cell) for (int k = 0; k < 2; ++k) { int row = cell * 2 + k, o = (1 - cell) * 2 + k; t.emplace_back(row, row, 4.0 + row); t.emplace_back(row, cell * 2 + (1 - k), 0.5 - 0.25 * row); t.emplace_back(row, o, -1.0 - 0.125 * row); } mats[2] = vf::from_triplets<double>(4, 4, t); }
    long idx = 0;
    for (int m = 0; m < 3; ++m) { const Csr<double> &A = mats[m]; uint64_t total = perm_count(A); const uint64_t batch = 108;
        for (uint64_t base = 0; base < total; base += batch, ++idx) {
            if (!vf::selected("roworder_exhaustive", idx)) continue;
            Case c("roworder_exhaustive", idx, J().n("matrix", m).n("n", A.n).n("orders_total", total).n("from", base).n("threads", omp_get_max_threads()));
            std::vector<Csr<double>> perms; for (uint64_t t = base; t < std::min(total, base + batch); ++t) perms.push_back(permuted(A, t));
            for (auto &Pm : perms) if (!has_diag_and_no_dups(Pm)) { fprintf(stderr, "harness: permuted() produced an invalid matrix\n"); exit(3); }
            if (m < 2) {
#define RC(R, name) exhaustive_class(c, std::string("as_preconditioner<") + name + ">", A, perms, [&](const Csr<double> &M) { typedef relaxation::as_preconditioner<B, relaxation::R> P; return std::unique_ptr<P>(new P(M.tie())); })
                RC(damped_jacobi, RELAX[0]); RC(spai0, RELAX[1]); RC(spai1, RELAX[2]); RC(gauss_seidel, RELAX[3]); RC(ilu0, RELAX[4]); RC(iluk, RELAX[5]); RC(ilut, RELAX[6]); RC(ilup, RELAX[7]); RC(chebyshev, RELAX[8]);
#undef RC
                AMG::params ap; ap.coarse_enough = 1; ap.direct_coarse = (m == 0);
                exhaustive_class(c, "amg<smoothed_aggregation,spai0>", A, perms, [&](const Csr<double> &M) { return std::unique_ptr<AMG>(new AMG(M.tie(), ap)); });
            } else {
                { typedef preconditioner::cpr<AMG, SP0> P; typename P::params prm; prm.block_size = 2; exhaustive_class(c, "cpr<amg,spai0>", A, perms, [&](const Csr<double> &M) { return std::unique_ptr<P>(new P(M.tie(), prm)); }); }
                { typedef preconditioner::cpr_drs<AMG, SP0> P; typename P::params prm; prm.block_size = 2; exhaustive_class(c, "cpr_drs<amg,spai0>", A, perms, [&](const Csr<double> &M) { return std::unique_ptr<P>(new P(M.tie(), prm)); }); }
                { typedef make_solver<AMG, solver::preonly<B>> US; typedef make_solver<SP0, solver::preonly<B>> PS; typedef preconditioner::schur_pressure_correction<US, PS> P;
                  for (int type = 1; type <= 2; ++type) { typename P::params prm; prm.type = type; prm.pmask = {0, 1, 0, 1}; exhaustive_class(c, "schur_pressure_correction<type" + std::to_string(type) + ">", A, perms, [&](const Csr<double> &M) { return std::unique_ptr<P>(new P(M.tie(), prm)); }); } }
            }
            c.nontrivial((long)perms.size());
        }
    }
    vf::obs_set("roworder_exhaustive_space", "every order of the entries within each row of a 3x3 full matrix (216), a 4x4 cyclic tridiagonal matrix (1296) and a 2-cell 2-phase block system (1296)");
}

int main(int argc, char **argv) {
    vf::init(argc, argv);
    vf::obs_add("threads_seen", std::to_string(omp_get_max_threads()));
    if (vf::sub_enabled("roworder_relax")) sub_relax();
    if (vf::sub_enabled("roworder_amg")) sub_amg();
    if (vf::sub_enabled("roworder_coupled")) sub_coupled();
    if (vf::sub_enabled("roworder_exhaustive")) sub_exhaustive();
    return vf::finish();
}
