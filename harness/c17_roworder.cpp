// C17 (part 2) -- input row order does not matter (DESIGN.md 5/C17).
// For every preconditioner class that accepts a user matrix the object built from a matrix whose
// row entries are listed in arbitrary order must act like the one built from the sorted matrix.
// Oracle (D): the action is extracted column by column (n <= 160: the complete dense operator;
// larger n: 6 random right-hand sides) and compared with max|B1 - B2| <= 1e-12 max|B1| -- bitwise
// equality is not demanded because a correct implementation may sum a row in input order
// (rounding ~ 1e-16 relative), while a mis-handled row order changes the operator at O(1e-2).
// An exception / assertion on the shuffled (valid, duplicate-free) matrix is a violation.
#include <amgcl/backend/builtin.hpp>
#include <amgcl/adapter/crs_tuple.hpp>
#include <amgcl/amg.hpp>
#include <amgcl/make_solver.hpp>
#include <amgcl/coarsening/runtime.hpp>
#include <amgcl/relaxation/runtime.hpp>
#include <amgcl/coarsening/smoothed_aggregation.hpp>
#include <amgcl/relaxation/as_preconditioner.hpp>
#include <amgcl/preconditioner/cpr.hpp>
#include <amgcl/preconditioner/cpr_drs.hpp>
#include <amgcl/preconditioner/schur_pressure_correction.hpp>
#include <amgcl/solver/cg.hpp>
#include <amgcl/solver/fgmres.hpp>
#include <amgcl/solver/preonly.hpp>
#include <vf/hooks.hpp>
#include <vf/solvecheck.hpp>
#include <omp.h>
#include <memory>

using namespace amgcl;
using vf::Csr; using vf::J; using vf::Rng; using vf::Case;
typedef backend::builtin<double> B;
typedef amg<B, coarsening::smoothed_aggregation, relaxation::spai0> AMG;
typedef amg<B, runtime::coarsening::wrapper, runtime::relaxation::wrapper> RAMG;

static const char *RELAX[9] = {"damped_jacobi", "spai0", "spai1", "gauss_seidel", "ilu0", "iluk", "ilut", "ilup", "chebyshev"};
static const char *COARS[4] = {"smoothed_aggregation", "aggregation", "ruge_stuben", "smoothed_aggr_emin"};

static bool has_diag_and_no_dups(const Csr<double> &A) {
    for (size_t i = 0; i < A.n; ++i) { bool d = false; std::vector<ptrdiff_t> cs(A.col.begin() + A.ptr[i], A.col.begin() + A.ptr[i + 1]); std::sort(cs.begin(), cs.end());
        for (size_t k = 0; k < cs.size(); ++k) { if (cs[k] == (ptrdiff_t)i) d = true; if (k && cs[k] == cs[k - 1]) return false; } if (!d) return false; }
    return true;
}

// Extract the action of two preconditioners and compare.  Returns max|B1-B2| / max|B1|.
template <class P1, class P2> double compare_action(Case &c, const std::string &nm, const P1 &p1, const P2 &p2, size_t n, Rng &r) {
    double diff = 0, scale = 0; bool finite = true; size_t ncols = n <= 160 ? n : 6;
    std::vector<double> f(n, 0.0), x1(n), x2(n);
    for (size_t j = 0; j < ncols; ++j) {
        if (n <= 160) { std::fill(f.begin(), f.end(), 0.0); f[j] = 1; } else for (auto &v : f) v = r.uni(-1, 1);
        std::fill(x1.begin(), x1.end(), 0.0); std::fill(x2.begin(), x2.end(), 0.0);
        p1.apply(f, x1); p2.apply(f, x2);
        for (size_t i = 0; i < n; ++i) { if (!std::isfinite(x1[i]) || !std::isfinite(x2[i])) finite = false; diff = std::max(diff, std::fabs(x1[i] - x2[i])); scale = std::max(scale, std::fabs(x1[i])); }
    }
    if (!finite || !(scale > 0)) {
        // the sorted object itself is degenerate: not a statement about row order
        bool f1 = true; for (double v : x1) f1 = f1 && std::isfinite(v);
        if (!f1 || !(scale > 0)) { vf::obs_sum("degenerate_sorted_reference"); return 0; }
    }
    double rel = finite ? diff / scale : std::numeric_limits<double>::infinity();
    vf::obs_max("max_rel_action_difference", finite ? rel : 1e300);
    c.check_le(rel, 1e-12, nm + ":action-differs-on-unsorted-rows", "object built from the row-shuffled matrix acts differently from the one built from the sorted matrix (relative to max|B|)");
    vf::obs_sum("actions_compared");
    return rel;
}

// Build P from sorted and shuffled input; ctor is a callable (matrix tuple) -> unique_ptr<P>
template <class Make> void roworder(Case &c, const std::string &nm, const Csr<double> &A, const Csr<double> &Ash, Make make, Rng &r) {
    vf::obs_add("classes_seen", nm);
    decltype(make(A)) p1, p2;
    try { p1 = make(A); } catch (const std::exception &e) { vf::obs_sum("sorted_reference_threw"); vf::obs_add("sorted_reference_threw_for", nm); return; }   // generator / class limitation, unrelated to row order
    try { p2 = make(Ash); } catch (const std::exception &e) { c.fail(nm + ":exception-on-unsorted-rows", std::string("constructor threw on a valid matrix with shuffled rows: ") + e.what()); return; }
    try { compare_action(c, nm, *p1, *p2, A.n, r); } catch (const std::exception &e) { c.fail(nm + ":apply-exception", e.what()); }
}

//---------------------------------------------------------------------------
// generators
//---------------------------------------------------------------------------
static Csr<double> scalar_matrix(Rng &r, long idx, std::string &fam) {
    switch (idx % 5) {
        case 0: { fam = "grid"; vf::GridSpec g; g.nx = (int)r.range(4, 14); g.ny = (int)r.range(4, 12); g.contrast = r.logu(1, 10); g.nine = r.coin(0.3); return vf::grid_diffusion(g, r); }
        case 1: { fam = "graph"; return vf::graph_laplacian((size_t)r.range(20, 150), r.uni(3, 6), r, r.coin(), true); }
        case 2: { fam = "convdiff"; return vf::convdiff((int)r.range(4, 12), (int)r.range(4, 12), r.uni(0.1, 3), r, r.coin(0.3)); }
        case 3: { fam = "random_dd_sympat"; return vf::random_dd((size_t)r.range(10, 120), r.uni(0.03, 0.2), r, true, 1.5); }
        default: { fam = "grid_large"; vf::GridSpec g; g.nx = (int)r.range(15, 30); g.ny = (int)r.range(12, 25); g.contrast = r.logu(1, 10); return vf::grid_diffusion(g, r); }
    }
}
// reservoir-like b-phase block system on a grid graph: full b x b blocks, first unknown pressure-like, strictly row diagonally dominant
static Csr<double> reservoir(Rng &r, int b, size_t &cells) {
    vf::GridSpec g; g.nx = (int)r.range(3, 10); g.ny = (int)r.range(2, 8); Csr<double> G = vf::grid_diffusion(g, r); cells = G.n;
    Csr<double> A(G.n * b, G.n * b);
    for (size_t I = 0; I < G.n; ++I) for (int k = 0; k < b; ++k) {
        size_t row = I * b + k; double off = 0; size_t dpos = 0;
        for (ptrdiff_t j = G.ptr[I]; j < G.ptr[I + 1]; ++j) for (int l = 0; l < b; ++l) {
            size_t col = (size_t)G.col[j] * b + l; double v;
            if ((size_t)G.col[j] == I) v = (k == l) ? 0.0 : r.uni(-0.3, 0.3); else v = (k == l) ? -r.uni(0.5, 1.5) : r.uni(-0.15, 0.15);
            if (col == row) dpos = A.col.size(); else off += std::fabs(v);
            A.push((ptrdiff_t)col, v);
        }
        A.val[dpos] = 1.1 * off + r.uni(0.5, 1.5); A.end_row();
    }
    return A;
}

typedef relaxation::as_preconditioner<B, relaxation::spai0> SP0;
typedef relaxation::as_preconditioner<B, relaxation::ilu0> SPI;

template <template <class> class R> void relax_case(Case &c, const std::string &rn, const Csr<double> &A, const Csr<double> &Ash, Rng &r) {
    typedef relaxation::as_preconditioner<B, R> P;
    roworder(c, "as_preconditioner<" + rn + ">", A, Ash, [&](const Csr<double> &M) { return std::unique_ptr<P>(new P(M.tie())); }, r);
}

static void sub_relax() {
    long N = vf::tier(60, 900);
    for (long idx = 0; idx < N; ++idx) {
        if (!vf::selected("roworder_relax", idx)) continue;
        Rng r(vf::case_seed("roworder_relax", idx)); std::string fam; Csr<double> A = scalar_matrix(r, idx, fam); bool rev = idx % 4 == 3; Csr<double> Ash = vf::shuffle_rows(A, r, rev);
        if (!has_diag_and_no_dups(A) || !has_diag_and_no_dups(Ash)) { fprintf(stderr, "harness: generator produced an invalid matrix\n"); exit(3); }
        Case c("roworder_relax", idx, J().s("family", fam).n("n", A.n).n("nnz", A.nnz()).s("shuffle", rev ? "reversed" : "random").n("threads", omp_get_max_threads()));
        relax_case<relaxation::damped_jacobi>(c, RELAX[0], A, Ash, r); relax_case<relaxation::spai0>(c, RELAX[1], A, Ash, r); relax_case<relaxation::spai1>(c, RELAX[2], A, Ash, r);
        relax_case<relaxation::gauss_seidel>(c, RELAX[3], A, Ash, r); relax_case<relaxation::ilu0>(c, RELAX[4], A, Ash, r); relax_case<relaxation::iluk>(c, RELAX[5], A, Ash, r);
        relax_case<relaxation::ilut>(c, RELAX[6], A, Ash, r); relax_case<relaxation::ilup>(c, RELAX[7], A, Ash, r); relax_case<relaxation::chebyshev>(c, RELAX[8], A, Ash, r);
        c.nontrivial(9); vf::sample("roworder_relax", J().s("family", fam).n("n", A.n).n("nnz", A.nnz()).s("shuffle", rev ? "reversed" : "random"));
    }
}

static void sub_amg() {
    long N = vf::tier(48, 720);
    for (long idx = 0; idx < N; ++idx) {
        if (!vf::selected("roworder_amg", idx)) continue;
        Rng r(vf::case_seed("roworder_amg", idx)); std::string fam; Csr<double> A = scalar_matrix(r, idx, fam); bool rev = idx % 4 == 3; Csr<double> Ash = vf::shuffle_rows(A, r, rev);
        const char *co = COARS[idx % 4], *re = RELAX[(idx / 4) % 9];
        Case c("roworder_amg", idx, J().s("family", fam).n("n", A.n).n("nnz", A.nnz()).s("coarsening", co).s("relax", re).s("shuffle", rev ? "reversed" : "random").n("threads", omp_get_max_threads()));
        boost::property_tree::ptree p; p.put("coarsening.type", co); p.put("relax.type", re); p.put("coarse_enough", (int)r.range(5, 25));
        size_t levels = 0;
        roworder(c, std::string("amg<") + co + "," + re + ">", A, Ash, [&](const Csr<double> &M) { std::unique_ptr<RAMG> a(new RAMG(M.tie(), p)); std::ostringstream os; os << *a; std::string s = os.str(); size_t pos = s.find("Number of levels:"); if (pos != std::string::npos) levels = std::max<size_t>(levels, atoi(s.c_str() + pos + 17)); return a; }, r);
        // make_solver: the bundled system matrix must be the same operator, the solve must return a solution of the original system
        { typedef make_solver<RAMG, solver::fgmres<B>> S; boost::property_tree::ptree sp; sp.put_child("precond", p); sp.put("solver.maxiter", 200);
          try { S s2(Ash.tie(), sp); std::vector<double> f = vf::random_vector(A.n, r), x(A.n, 0.0); auto res = s2(f, x); vf::SolveSpec spec; spec.maxiter = 200; spec.must_converge = (idx % 5 == 0 || idx % 5 == 1 || idx % 5 == 4);
                vf::check_solution(c, "make_solver<amg,fgmres>(unsorted)", A, f, x, std::get<0>(res), std::get<1>(res), spec);
                // system matrix of the bundle vs the user's matrix (amg sorts its private copy)
                backend::numa_vector<double> X(f), Y(A.n); backend::spmv(1.0, s2.system_matrix(), X, 0.0, Y); auto ref = vf::spmv_ld(A, f); bool ok = true; for (size_t i = 0; i < A.n; ++i) { long double ac = 0; for (auto j = A.ptr[i]; j < A.ptr[i + 1]; ++j) ac += fabsl((long double)A.val[j] * f[A.col[j]]); if (!(fabsl(Y[i] - ref[i]) <= 2 * (A.ptr[i + 1] - A.ptr[i] + 4) * 2.22e-16L * ac)) ok = false; }
                c.check(ok, "make_solver:system-matrix", "system_matrix() of a solver built from unsorted rows is not the user's operator"); }
          catch (const std::exception &e) { c.fail("make_solver<amg,fgmres>:exception-on-unsorted-rows", e.what()); } }
        if (levels >= 2) c.nontrivial(); vf::obs_max("max_levels", (double)levels);
        vf::sample("roworder_amg", J().s("family", fam).n("n", A.n).s("coarsening", co).s("relax", re).n("levels", levels));
    }
}

static void sub_coupled() {
    long N = vf::tier(40, 600);
    for (long idx = 0; idx < N; ++idx) {
        if (!vf::selected("roworder_coupled", idx)) continue;
        Rng r(vf::case_seed("roworder_coupled", idx)); int b = 2 + (int)(idx % 2); size_t cells; Csr<double> A = reservoir(r, b, cells); bool rev = idx % 4 == 3; Csr<double> Ash = vf::shuffle_rows(A, r, rev); size_t n = A.n;
        if (!has_diag_and_no_dups(A) || !has_diag_and_no_dups(Ash)) { fprintf(stderr, "harness: generator produced an invalid matrix\n"); exit(3); }
        Case c("roworder_coupled", idx, J().s("family", "reservoir").n("block", b).n("cells", cells).n("n", n).n("nnz", A.nnz()).s("shuffle", rev ? "reversed" : "random").n("threads", omp_get_max_threads()));
        { typedef preconditioner::cpr<AMG, SP0> P; typename P::params prm; prm.block_size = b; prm.pprecond.coarse_enough = 8;
          roworder(c, "cpr<amg,spai0>", A, Ash, [&](const Csr<double> &M) { return std::unique_ptr<P>(new P(M.tie(), prm)); }, r); }
        { typedef preconditioner::cpr_drs<AMG, SP0> P; typename P::params prm; prm.block_size = b; prm.pprecond.coarse_enough = 8;
          roworder(c, "cpr_drs<amg,spai0>", A, Ash, [&](const Csr<double> &M) { return std::unique_ptr<P>(new P(M.tie(), prm)); }, r); }
        if (idx % 2 == 0) { typedef preconditioner::cpr<AMG, SPI> P; typename P::params prm; prm.block_size = b; prm.pprecond.coarse_enough = 8;
          roworder(c, "cpr<amg,ilu0>", A, Ash, [&](const Csr<double> &M) { return std::unique_ptr<P>(new P(M.tie(), prm)); }, r); }
        { typedef make_solver<AMG, solver::preonly<B>> US; typedef make_solver<SP0, solver::preonly<B>> PS; typedef preconditioner::schur_pressure_correction<US, PS> P;
          for (int type = 1; type <= 2; ++type) { typename P::params prm; prm.type = type; prm.approx_schur = (idx / 2) % 2; prm.adjust_p = (int)((idx / 4) % 3); prm.pmask.assign(n, 0); for (size_t i = 0; i < n; ++i) prm.pmask[i] = (i % b == (size_t)(b - 1)); prm.usolver.precond.coarse_enough = 8;
            roworder(c, "schur_pressure_correction<type" + std::to_string(type) + ">", A, Ash, [&](const Csr<double> &M) { return std::unique_ptr<P>(new P(M.tie(), prm)); }, r); } }
        // make_solver over a coupled preconditioner built from unsorted rows must still return a solution of the original system
        { typedef make_solver<preconditioner::cpr<AMG, SP0>, solver::fgmres<B>> S; typename S::params prm; prm.precond.block_size = b; prm.precond.pprecond.coarse_enough = 8; prm.solver.maxiter = 300;
          try { S s2(Ash.tie(), prm); std::vector<double> f = vf::random_vector(n, r), x(n, 0.0); auto res = s2(f, x); vf::SolveSpec spec; spec.maxiter = 300; vf::check_solution(c, "make_solver<cpr,fgmres>(unsorted)", A, f, x, std::get<0>(res), std::get<1>(res), spec); }
          catch (const std::exception &e) { c.fail("make_solver<cpr,fgmres>:exception-on-unsorted-rows", e.what()); } }
        c.nontrivial(5); vf::sample("roworder_coupled", J().n("block", b).n("cells", cells).n("n", n).s("shuffle", rev ? "reversed" : "random"));
    }
}

int main(int argc, char **argv) {
    vf::init(argc, argv);
    vf::obs_add("threads_seen", std::to_string(omp_get_max_threads()));
    if (vf::sub_enabled("roworder_relax")) sub_relax();
    if (vf::sub_enabled("roworder_amg")) sub_amg();
    if (vf::sub_enabled("roworder_coupled")) sub_coupled();
    return vf::finish();
}
