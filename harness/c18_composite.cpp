// C18 -- composite preconditioners realise their block formulas (DESIGN.md 5/C18).
// Harness-side exact inner solvers / preconditioners (dense long double LU) satisfy the USolver / PSolver /
// PPrecond / SPrecond concepts and record the matrices they are constructed with.  References are dense
// long double formulas written from the documentation (docs/components/preconditioners.rst).
#include <amgcl/backend/builtin.hpp>
#include <amgcl/value_type/static_matrix.hpp>
#include <amgcl/adapter/crs_tuple.hpp>
#include <amgcl/adapter/block_matrix.hpp>
#include <amgcl/make_solver.hpp>
#include <amgcl/amg.hpp>
#include <amgcl/coarsening/smoothed_aggregation.hpp>
#include <amgcl/relaxation/spai0.hpp>
#include <amgcl/relaxation/as_preconditioner.hpp>
#include <amgcl/solver/cg.hpp>
#include <amgcl/solver/bicgstab.hpp>
#include <amgcl/solver/gmres.hpp>
#include <amgcl/solver/fgmres.hpp>
#include <amgcl/solver/richardson.hpp>
#include <amgcl/solver/preonly.hpp>
#include <amgcl/preconditioner/dummy.hpp>
#include <amgcl/preconditioner/schur_pressure_correction.hpp>
#include <amgcl/preconditioner/cpr.hpp>
#include <amgcl/preconditioner/cpr_drs.hpp>
#include <amgcl/deflated_solver.hpp>
#include <vf/hooks.hpp>
#include <vf/dense.hpp>
#include <omp.h>
#include <unistd.h>
#include <fcntl.h>
#include <poll.h>
#include <signal.h>
#include <sys/wait.h>

using namespace amgcl;
using vf::J; using vf::Rng; using vf::Case; using vf::LD; using vf::LV;
typedef backend::builtin<double> SB; typedef SB::matrix SM; typedef amgcl::verif::access ACC;
static const double EPS = 2.2204460492503131e-16;
static long STRIDE = 1;
static bool sel(const char *sub, long idx) { return (STRIDE <= 1 || idx % STRIDE == 0) && vf::selected(sub, idx); }

static long double ninf(const LD &A) { long double m = 0; for (int i = 0; i < A.rows(); ++i) { long double s = 0; for (int j = 0; j < A.cols(); ++j) s += fabsl(A(i, j)); m = std::max(m, s); } return m; }
static long double nmax(const LD &A) { return A.size() ? A.cwiseAbs().maxCoeff() : 0.0L; }
static long double cond_inf(const LD &A) { if (!A.rows()) return 1; Eigen::FullPivLU<LD> lu(A); if (!lu.isInvertible()) return 1e300L; LD Ai = lu.inverse(); return ninf(A) * ninf(Ai); }
template <class M> LD dense_of(const M &A) { LD D = LD::Zero(A.nrows, A.ncols); for (size_t i = 0; i < A.nrows; ++i) for (auto j = A.ptr[i]; j < A.ptr[i + 1]; ++j) D(i, A.col[j]) += (long double)A.val[j]; return D; }
struct Crs { size_t n = 0; std::vector<ptrdiff_t> ptr, col; std::vector<double> val; };
static Crs crs_of(const LD &A, Rng *shuffle = nullptr, const std::vector<char> *keep = nullptr) {
    Crs C; C.n = A.rows(); C.ptr.push_back(0);
    for (int i = 0; i < A.rows(); ++i) { std::vector<int> cs; for (int j = 0; j < A.cols(); ++j) if (A(i, j) != 0 || (keep && (*keep)[(size_t)i * A.cols() + j])) cs.push_back(j); if (shuffle) shuffle->shuffle(cs);
        for (int j : cs) { C.col.push_back(j); C.val.push_back((double)A(i, j)); } C.ptr.push_back(C.col.size()); }
    return C;
}
// operator extraction on unit vectors through an apply(f, x) callable working on numa_vectors
template <class F> LD extract(size_t rows, size_t cols, F apply) {
    LD B(rows, cols); backend::numa_vector<double> e(cols), x(rows); for (size_t i = 0; i < cols; ++i) e[i] = 0;
    for (size_t j = 0; j < cols; ++j) { e[j] = 1; for (size_t i = 0; i < rows; ++i) x[i] = 0.0; apply(e, x); e[j] = 0; for (size_t i = 0; i < rows; ++i) B(i, j) = x[i]; }
    return B;
}

//---------------------------------------------------------------------------
// Exact, recording inner components
//---------------------------------------------------------------------------
struct Recorded { std::shared_ptr<SM> last; long constructed = 0; };
template <int Tag> Recorded& rec() { static Recorded r; return r; }

// Preconditioner concept: apply(f, x) = A^{-1} f (dense long double LU, rounded to double)
template <int Tag> struct ExactPrec {
    typedef SB backend_type; typedef SM matrix; typedef SM build_matrix; typedef amgcl::detail::empty_params params; typedef double value_type;
    std::shared_ptr<SM> A; size_t n; bool bad = false; mutable bool have = false; mutable Eigen::PartialPivLU<LD> lu;
    template <class M> ExactPrec(const M &m, const params& = params(), const SB::params& = SB::params()) : A(std::make_shared<SM>(m)), n(backend::rows(m)) { note(); }
    ExactPrec(std::shared_ptr<SM> m, const params& = params(), const SB::params& = SB::params()) : A(m), n(m->nrows) { note(); }
    void note() { rec<Tag>().last = std::make_shared<SM>(*A); rec<Tag>().constructed++; bad = A->nrows != A->ncols; for (size_t i = 0; i < A->nrows && !bad; ++i) for (auto j = A->ptr[i]; j < A->ptr[i + 1]; ++j) if (A->col[j] < 0 || A->col[j] >= (ptrdiff_t)A->ncols) { bad = true; break; } }
    template <class V1, class V2> void apply(const V1 &f, V2 &&x) const {
        if (bad) { for (size_t i = 0; i < n; ++i) x[i] = 0; return; }      // a structurally invalid matrix is reported by the monitor of the calling check
        if (!have) { LD D = dense_of(*A); lu.compute(D); have = true; }
        LV b(n); for (size_t i = 0; i < n; ++i) b(i) = f[i]; LV s = lu.solve(b); for (size_t i = 0; i < n; ++i) x[i] = (double)s(i);
    }
    const SM& system_matrix() const { return *A; } std::shared_ptr<SM> system_matrix_ptr() const { return A; } size_t bytes() const { return 0; }
    friend std::ostream& operator<<(std::ostream &os, const ExactPrec&) { return os << "exact dense preconditioner"; }
};
// Solver concept (USolver / PSolver of schur_pressure_correction): exact solve with the own matrix, or with a
// matrix-free operator whose dense form is obtained by applying backend::spmv to unit vectors (cached per object).
template <int Tag> struct ExactSolver {
    typedef SB backend_type; typedef SM matrix; typedef amgcl::detail::empty_params params;
    std::shared_ptr<SM> A; size_t n; mutable bool have = false, have_op = false; mutable Eigen::PartialPivLU<LD> lu, lu_op; mutable LD Sop;
    template <class M> ExactSolver(const M &m, const params& = params(), const SB::params& = SB::params()) : A(std::make_shared<SM>(m)), n(backend::rows(m)) { rec<Tag>().last = std::make_shared<SM>(*A); rec<Tag>().constructed++; }
    template <class V1, class V2> std::tuple<size_t, double> operator()(const V1 &f, V2 &&x) const {
        if (!n) return std::make_tuple(size_t(0), 0.0);
        if (!have) { LD D = dense_of(*A); lu.compute(D); have = true; }
        LV b(n); for (size_t i = 0; i < n; ++i) b(i) = f[i]; LV s = lu.solve(b); for (size_t i = 0; i < n; ++i) x[i] = (double)s(i); return std::make_tuple(size_t(1), 0.0);
    }
    template <class Op, class V1, class V2> std::tuple<size_t, double> operator()(const Op &S, const V1 &f, V2 &&x) const {
        if (!n) return std::make_tuple(size_t(0), 0.0);
        if (!have_op) { Sop = LD(n, n); backend::numa_vector<double> e(n), y(n); for (size_t i = 0; i < n; ++i) e[i] = 0;
            for (size_t j = 0; j < n; ++j) { e[j] = 1; backend::spmv(1.0, S, e, 0.0, y); e[j] = 0; for (size_t i = 0; i < n; ++i) Sop(i, j) = y[i]; } lu_op.compute(Sop); have_op = true; }
        LV b(n); for (size_t i = 0; i < n; ++i) b(i) = f[i]; LV s = lu_op.solve(b); for (size_t i = 0; i < n; ++i) x[i] = (double)s(i); return std::make_tuple(size_t(1), 0.0);
    }
    const SM& system_matrix() const { return *A; } std::shared_ptr<SM> system_matrix_ptr() const { return A; } size_t bytes() const { return 0; }
    friend std::ostream& operator<<(std::ostream &os, const ExactSolver&) { return os << "exact dense solver"; }
};

//---------------------------------------------------------------------------
// G8 saddle point generator.  K = [[A, B1],[B2, C]] scattered by the pressure mask.
//---------------------------------------------------------------------------
struct Saddle { int n, nu, np; std::vector<char> mask; std::vector<int> iu, ip; LD K, Kuu, Kup, Kpu, Kpp, S; std::vector<char> stored; std::string cmode, maskname, pattern; };
static void split(Saddle &s) {
    s.iu.clear(); s.ip.clear(); for (int i = 0; i < s.n; ++i) (s.mask[i] ? s.ip : s.iu).push_back(i); s.nu = s.iu.size(); s.np = s.ip.size();
    s.Kuu = LD(s.nu, s.nu); s.Kup = LD(s.nu, s.np); s.Kpu = LD(s.np, s.nu); s.Kpp = LD(s.np, s.np);
    for (int a = 0; a < s.nu; ++a) { for (int b = 0; b < s.nu; ++b) s.Kuu(a, b) = s.K(s.iu[a], s.iu[b]); for (int b = 0; b < s.np; ++b) s.Kup(a, b) = s.K(s.iu[a], s.ip[b]); }
    for (int a = 0; a < s.np; ++a) { for (int b = 0; b < s.nu; ++b) s.Kpu(a, b) = s.K(s.ip[a], s.iu[b]); for (int b = 0; b < s.np; ++b) s.Kpp(a, b) = s.K(s.ip[a], s.ip[b]); }
}
static bool make_mask(int n, int kind, Rng &r, Saddle &s) {
    s.mask.assign(n, 0); s.pattern.clear();
    switch (kind) {
        case 0: { int k = (int)r.range(2, 4), st = (int)r.range(0, k - 1); for (int i = st; i < n; i += k) s.mask[i] = 1; s.maskname = "interleaved"; s.pattern = "%" + std::to_string(st) + ":" + std::to_string(k); break; }
        case 1: { int m = (int)r.range(1, std::max(1, n / 2)); for (int i = 0; i < m; ++i) s.mask[i] = 1; s.maskname = "prefix"; s.pattern = "<" + std::to_string(m); break; }
        case 2: { int m = (int)r.range(n / 2, n - 1); for (int i = m; i < n; ++i) s.mask[i] = 1; s.maskname = "suffix"; s.pattern = ">" + std::to_string(m); break; }
        default: { for (int i = 0; i < n; ++i) s.mask[i] = r.coin(0.3); s.maskname = "random"; }
    }
    int np = 0; for (char c : s.mask) np += c; return np > 0 && np < n && np <= n - np;
}
// cmode: 0 no stored pp entries, 1 -c I, 2 dominant block, 3 explicitly stored zero diagonal
static Saddle gen_saddle(Rng &r, int n, int maskkind, int cmode, bool need_kpp_regular, double coupling = 1.0) {
    for (int attempt = 0; attempt < 60; ++attempt) {
        Saddle s; s.n = n; if (!make_mask(n, maskkind, r, s)) { maskkind = 3; continue; }
        int mode = attempt < 40 ? cmode : 2; static const char *cn[] = {"absent", "minus-cI", "dominant", "explicit-zero-diagonal"}; s.cmode = cn[mode];
        s.K = LD::Zero(n, n); s.stored.assign((size_t)n * n, 0); std::vector<int> iu, ip; for (int i = 0; i < n; ++i) (s.mask[i] ? ip : iu).push_back(i); int nu = iu.size(), np = ip.size();
        bool stokes = r.coin(0.5); double dB = r.pick(std::vector<double>{0.3, 0.6});
        for (int a = 0; a < nu; ++a) { long double rs = 0; for (int b = 0; b < nu; ++b) if (a != b && r.coin(0.25)) { double v = r.uni(-1, 1); s.K(iu[a], iu[b]) = v; rs += std::fabs(v); } s.K(iu[a], iu[a]) = (double)((rs + 0.5) * r.uni(1.2, 1.6)); }
        for (int a = 0; a < nu; ++a) for (int b = 0; b < np; ++b) if (r.coin(dB)) { double v = r.uni(-1, 1) * coupling; s.K(iu[a], ip[b]) = v; if (stokes) s.K(ip[b], iu[a]) = v; }
        if (!stokes) for (int a = 0; a < nu; ++a) for (int b = 0; b < np; ++b) if (r.coin(dB)) s.K(ip[b], iu[a]) = r.uni(-1, 1) * coupling;
        if (mode == 1) for (int b = 0; b < np; ++b) s.K(ip[b], ip[b]) = -r.uni(0.05, 0.5);
        if (mode == 2) for (int a = 0; a < np; ++a) { long double rs = 0; for (int b = 0; b < np; ++b) if (a != b && r.coin(0.3)) { double v = r.uni(-0.5, 0.5); s.K(ip[a], ip[b]) = v; rs += std::fabs(v); } long double ro = 0; for (int b = 0; b < nu; ++b) ro += fabsl(s.K(ip[a], iu[b])); s.K(ip[a], ip[a]) = (double)((rs + ro + 0.5) * 1.3) * (r.coin(0.3) ? -1 : 1); }
        if (mode == 3) for (int b = 0; b < np; ++b) s.stored[(size_t)ip[b] * n + ip[b]] = 1;
        split(s); s.S = s.Kpp - s.Kpu * s.Kuu.partialPivLu().solve(s.Kup);
        if (cond_inf(s.K) > 1e6L || cond_inf(s.Kuu) > 1e4L || cond_inf(s.S) > 1e6L) continue;
        if (need_kpp_regular && mode != 2) { cmode = 2; continue; }
        return s;
    }
    fprintf(stderr, "saddle generator failed\n"); exit(3);
}
// documented approximations of diag(Kuu)^-1
static LV kuu_dia_inv(const Saddle &s, bool simplec) { LV d(s.nu); for (int i = 0; i < s.nu; ++i) { if (simplec) { long double t = 0; for (int j = 0; j < s.nu; ++j) t += fabsl(s.Kuu(i, j)); d(i) = 1 / t; } else d(i) = 1 / s.Kuu(i, i); } return d; }
// matrix handed to the pressure solver per docs:  C, C - diag(B2 diag(A)^-1 B1), C - B2 diag(A)^-1 B1
static LD adjusted_pp(const Saddle &s, int adjust, bool simplec) { if (adjust == 0) return s.Kpp; LV d = kuu_dia_inv(s, simplec); LD T = s.Kpu * d.asDiagonal() * s.Kup; if (adjust == 1) { LD R = s.Kpp; for (int i = 0; i < s.np; ++i) R(i, i) -= T(i, i); return R; } LD R2 = s.Kpp - T; return R2; }

// reference action for linear inner operators Xu (for Kuu^-1) and Xp (for S^-1), scattered to the global ordering
static LD schur_ref(const Saddle &s, int type, const LD &Xu, const LD &Xp) {
    LD Buu, Bup, Bpu, Bpp;
    if (type == 1) { Bpp = Xp; Bpu = -Xp * s.Kpu * Xu; Buu = Xu - Xu * s.Kup * Bpu; Bup = -Xu * s.Kup * Xp; }
    else { Bpp = Xp; Bpu = LD::Zero(s.np, s.nu); Buu = Xu; Bup = -Xu * s.Kup * Xp; }
    LD B = LD::Zero(s.n, s.n);
    for (int a = 0; a < s.nu; ++a) { for (int b = 0; b < s.nu; ++b) B(s.iu[a], s.iu[b]) = Buu(a, b); for (int b = 0; b < s.np; ++b) B(s.iu[a], s.ip[b]) = Bup(a, b); }
    for (int a = 0; a < s.np; ++a) { for (int b = 0; b < s.nu; ++b) B(s.ip[a], s.iu[b]) = Bpu(a, b); for (int b = 0; b < s.np; ++b) B(s.ip[a], s.ip[b]) = Bpp(a, b); }
    return B;
}
// First-order rounding bound for the extracted action (f = unit vector, gamma = n eps).  With G = ||Xu||, s = ||Xp||, a = ||Kup||,
// b = ||Kpu||, c = ||Kpp|| (inf norms):  u1 = Xu fu (|u1| <= G, rounded: eps), rp = fp - Kpu u1 (gamma (1 + b G)), p = Xp rp where the
// operator / matrix behind Xp carries a relative rounding error E = gamma (c + 3 b G a) from its assembly by spmv's,
// |p| <= P := s (1 + b G);  dp <= s (2 gamma b G + gamma + E P) + eps P;  ru = fu - Kup p (gamma (1 + a P)),  |u| <= U := G (1 + a P),
// du <= G (a dp + gamma (1 + a P)) + eps U.   tol = 4 max(dp, du).
static double schur_tol(const Saddle &s, const LD &Xu, const LD &Xp, double dmax) {
    long double G = std::max<long double>(ninf(Xu), dmax), sp = ninf(Xp), a = ninf(s.Kup), b = ninf(s.Kpu), c = ninf(s.Kpp), g = s.n * EPS;
    long double P = sp * (1 + b * G), E = g * (c + 3 * b * G * a), dp = sp * (2 * g * b * G + g + E * P) + EPS * P, U = G * (1 + a * P), du = G * (a * dp + g * (1 + a * P)) + EPS * U;
    return (double)(4 * std::max(dp, du));
}

template <class SPC> typename SPC::params schur_params(const Saddle &s, int type, int adjust, bool simplec, bool approx, int route, std::vector<char> &mask_store) {
    typename SPC::params p;
    if (route == 0) { p.pmask = s.mask; p.type = type; p.adjust_p = adjust; p.simplec_dia = simplec; p.approx_schur = approx; }
    else { boost::property_tree::ptree t; t.put("type", type); t.put("adjust_p", adjust); t.put("simplec_dia", simplec); t.put("approx_schur", approx); t.put("pmask_size", s.n);
        if (route == 1 && !s.pattern.empty()) t.put("pmask_pattern", s.pattern); else { mask_store = s.mask; t.put("pmask", static_cast<void*>(mask_store.data())); }
        p = typename SPC::params(t); }
    return p;
}

//---------------------------------------------------------------------------
// schur_exact: type 1 == K^-1, type 2 == inverse of the block upper triangular matrix, for every mask / adjust_p
//---------------------------------------------------------------------------
static void sub_schur_exact() {
    long N = vf::tier(384, 7200);
    for (long idx = 0; idx < N; ++idx) {
        if (!sel("schur_exact", idx)) continue;
        Rng r(vf::case_seed("schur_exact", idx)); int maskkind = idx % 4, cmode = (idx / 4) % 4, route = (idx / 16) % 3; int n = (int)r.range(6, idx % 5 == 0 ? 40 : 20); bool simplec = r.coin(0.5);
        Saddle s = gen_saddle(r, n, maskkind, cmode, false); LD Ki = s.K.partialPivLu().inverse(); Crs C = crs_of(s.K, r.coin(0.3) ? &r : nullptr, &s.stored);
        Case c("schur_exact", idx, J().n("n", n).n("np", s.np).s("mask", s.maskname).s("pp_block", s.cmode).bl("simplec_dia", simplec).s("params", route == 0 ? "struct" : route == 1 ? "ptree-pattern" : "ptree-pointer"));
        typedef preconditioner::schur_pressure_correction<ExactSolver<1>, ExactSolver<2>> SPC;
        LD Xu = s.Kuu.partialPivLu().inverse(), Xp = s.S.partialPivLu().inverse();
        // block upper triangular reference (property text): T = [[Kuu, Kup],[0, S]] in the global ordering
        LD T = LD::Zero(n, n); for (int a = 0; a < s.nu; ++a) { for (int b = 0; b < s.nu; ++b) T(s.iu[a], s.iu[b]) = s.Kuu(a, b); for (int b = 0; b < s.np; ++b) T(s.iu[a], s.ip[b]) = s.Kup(a, b); } for (int a = 0; a < s.np; ++a) for (int b = 0; b < s.np; ++b) T(s.ip[a], s.ip[b]) = s.S(a, b);
        LD Ti = T.partialPivLu().inverse();
        { LD R1 = schur_ref(s, 1, Xu, Xp), R2 = schur_ref(s, 2, Xu, Xp); if (nmax(R1 - Ki) > 1e-12L * (1 + nmax(Ki)) * (double)cond_inf(s.K) || nmax(R2 - Ti) > 1e-12L * (1 + nmax(Ti)) * (double)cond_inf(T)) { fprintf(stderr, "schur reference inconsistent\n"); exit(3); } }
        for (int type = 1; type <= 2; ++type) for (int adjust = 0; adjust <= 2; ++adjust) {
            std::string tag = "type" + std::to_string(type) + ":adjust_p" + std::to_string(adjust);
            try {
                std::vector<char> store; SPC::params p = schur_params<SPC>(s, type, adjust, simplec, false, route, store);
                SPC P(std::tie(C.n, C.ptr, C.col, C.val), p);
                c.check(P.prm.pmask == s.mask, "schur:pmask-from-params", "pressure mask built from the parameters differs from the requested mask (" + s.pattern + ")");
                LD B = extract(n, n, [&](const backend::numa_vector<double> &f, backend::numa_vector<double> &x) { P.apply(f, x); });
                const LD &Ref = type == 1 ? Ki : Ti; double tol = schur_tol(s, Xu, Xp, 0);
                c.check_le((double)nmax(B - Ref), tol, "schur:exact-inverse:" + tag, type == 1 ? "type 1 with exact inner solves is not K^-1" : "type 2 with exact inner solves is not the inverse of the block upper triangular matrix");
                vf::obs_max("max_schur_err_over_tol", (double)nmax(B - Ref) / tol);
            } catch (const std::exception &e) { c.fail("schur:exception:" + tag, e.what()); }
        }
        c.nontrivial(); vf::obs_add("masks_seen", s.maskname); vf::obs_add("pp_blocks_seen", s.cmode);
        vf::sample("schur_exact", J().n("n", n).n("np", s.np).s("mask", s.maskname).s("pp_block", s.cmode));
    }
}

//---------------------------------------------------------------------------
// schur_blocks: recorded sub-matrices reassemble K; the matrix given to the pressure solver follows the documented
// adjust_p formulas; gather / scatter operators are selections; the matrix-free Schur operator is the documented one.
//---------------------------------------------------------------------------
static bool same_entries(const SM &M, const LD &D, const std::vector<char> *stored_extra, const std::vector<int> &ri, const std::vector<int> &ci, int n, std::string &why) {
    // every stored entry equals the dense entry bitwise, and every non-zero (or explicitly stored) dense entry is stored exactly once
    if ((int)M.nrows != D.rows() || (int)M.ncols != D.cols()) { why = "shape"; return false; }
    LD seen = LD::Zero(D.rows(), D.cols());
    for (size_t i = 0; i < M.nrows; ++i) for (auto j = M.ptr[i]; j < M.ptr[i + 1]; ++j) { auto cc = M.col[j]; if (cc < 0 || cc >= (ptrdiff_t)M.ncols) { why = "column out of range"; return false; } if (seen(i, cc) != 0) { why = "duplicate entry"; return false; } seen(i, cc) = 1; if ((long double)M.val[j] != D(i, cc)) { why = "value differs"; return false; } }
    for (int i = 0; i < D.rows(); ++i) for (int j = 0; j < D.cols(); ++j) { bool must = D(i, j) != 0 || (stored_extra && (*stored_extra)[(size_t)ri[i] * n + ci[j]]); if (must != (seen(i, j) != 0)) { why = must ? "entry missing" : "spurious entry"; return false; } }
    return true;
}
static void sub_schur_blocks() {
    long N = vf::tier(288, 4800);
    for (long idx = 0; idx < N; ++idx) {
        if (!sel("schur_blocks", idx)) continue;
        Rng r(vf::case_seed("schur_blocks", idx)); int maskkind = idx % 4, cmode = (idx / 4) % 4; int n = (int)r.range(6, 24); bool simplec = (idx / 16) % 2, approx = (idx / 32) % 2; int adjust = (int)(idx % 3);
        Saddle s = gen_saddle(r, n, maskkind, cmode, false); Crs C = crs_of(s.K, r.coin(0.3) ? &r : nullptr, &s.stored);
        Case c("schur_blocks", idx, J().n("n", n).n("np", s.np).s("mask", s.maskname).s("pp_block", s.cmode).n("adjust_p", adjust).bl("simplec_dia", simplec).bl("approx_schur", approx));
        typedef preconditioner::schur_pressure_correction<ExactSolver<3>, ExactSolver<4>> SPC;
        try {
            SPC::params p; p.pmask = s.mask; p.adjust_p = adjust; p.simplec_dia = simplec; p.approx_schur = approx; p.type = 1 + (int)(idx % 2);
            SPC P(std::tie(C.n, C.ptr, C.col, C.val), p); std::string why;
            std::shared_ptr<SM> rKuu = rec<3>().last, rPm = rec<4>().last;
            c.check(same_entries(*rKuu, s.Kuu, &s.stored, s.iu, s.iu, n, why), "schur:sub-block:Kuu", "matrix given to the flow solver is not K[u,u]: " + why);
            c.check(same_entries(*ACC::Kup(P), s.Kup, &s.stored, s.iu, s.ip, n, why), "schur:sub-block:Kup", "Kup is not K[u,p]: " + why);
            c.check(same_entries(*ACC::Kpu(P), s.Kpu, &s.stored, s.ip, s.iu, n, why), "schur:sub-block:Kpu", "Kpu is not K[p,u]: " + why);
            if (adjust == 0) c.check(same_entries(*rPm, s.Kpp, &s.stored, s.ip, s.ip, n, why), "schur:sub-block:Kpp", "matrix given to the pressure solver (adjust_p = 0) is not K[p,p]: " + why);
            // reassembly of K from the four blocks
            { LD Kr = LD::Zero(n, n); LD uu = dense_of(*rKuu), up = dense_of(*ACC::Kup(P)), pu = dense_of(*ACC::Kpu(P));
              for (int a = 0; a < s.nu; ++a) { for (int b = 0; b < s.nu; ++b) Kr(s.iu[a], s.iu[b]) = uu(a, b); for (int b = 0; b < s.np; ++b) Kr(s.iu[a], s.ip[b]) = up(a, b); }
              for (int a = 0; a < s.np; ++a) for (int b = 0; b < s.nu; ++b) Kr(s.ip[a], s.iu[b]) = pu(a, b);
              if (adjust == 0) { LD pp = dense_of(*rPm); for (int a = 0; a < s.np; ++a) for (int b = 0; b < s.np; ++b) Kr(s.ip[a], s.ip[b]) = pp(a, b); } else for (int a = 0; a < s.np; ++a) for (int b = 0; b < s.np; ++b) Kr(s.ip[a], s.ip[b]) = s.Kpp(a, b);
              c.check(nmax(Kr - s.K) == 0, "schur:reassembly", "the extracted u/p sub-blocks do not reassemble to K"); }
            c.check(nmax(dense_of(P.system_matrix()) - s.K) == 0, "schur:system-matrix", "system_matrix() is not K");
            // documented adjustment of the pressure matrix; entrywise rounding bound (nu + 3) eps sum|terms|
            { LD Want = adjusted_pp(s, adjust, simplec), Got = dense_of(*rPm); LV d = kuu_dia_inv(s, simplec); LD Tabs = s.Kpu.cwiseAbs() * d.cwiseAbs().asDiagonal() * s.Kup.cwiseAbs(); bool ok = true; double worst = 0;
              for (int i = 0; i < s.np; ++i) for (int j = 0; j < s.np; ++j) { long double tol = (s.nu + 3) * EPS * (fabsl(s.Kpp(i, j)) + Tabs(i, j)) + 1e-300L; long double e = fabsl(Got(i, j) - Want(i, j));
                  // adjust_p = 1 changes existing diagonal entries only: where K[p,p] stores no diagonal entry the unadjusted (absent) entry is accepted as well
                  if (adjust == 1 && i == j && s.Kpp(i, i) == 0 && !s.stored[(size_t)s.ip[i] * n + s.ip[i]] && Got(i, i) == 0) continue;
                  if (!(e <= tol)) { ok = false; worst = std::max(worst, (double)e); } }
              c.check(ok, "schur:adjust_p:" + std::to_string(adjust) + (simplec ? ":simplec" : ":diag"), "matrix given to the pressure solver differs from the documented C - [diag](B2 diag(A)^-1 B1)", J().n("worst_abs_err", worst).s("pp_block", s.cmode)); }
            // gather / scatter
            { LD x2u = dense_of(*ACC::x2u(P)), x2p = dense_of(*ACC::x2p(P)), u2x = dense_of(*ACC::u2x(P)), p2x = dense_of(*ACC::p2x(P)); bool ok = x2u.rows() == s.nu && x2p.rows() == s.np && u2x.cols() == s.nu && p2x.cols() == s.np;
              if (ok) { LD Eu = LD::Zero(s.nu, n), Ep = LD::Zero(s.np, n); for (int a = 0; a < s.nu; ++a) Eu(a, s.iu[a]) = 1; for (int a = 0; a < s.np; ++a) Ep(a, s.ip[a]) = 1; ok = nmax(x2u - Eu) == 0 && nmax(x2p - Ep) == 0 && nmax(u2x - Eu.transpose()) == 0 && nmax(p2x - Ep.transpose()) == 0; }
              c.check(ok, "schur:gather-scatter", "x2u/x2p/u2x/p2x are not the selection matrices of the mask"); }
            // matrix-free Schur operator: Kpp - Kpu X Kup with X = Kuu^-1 (exact flow solver) or the documented diagonal approximation
            { LD X = approx ? LD(kuu_dia_inv(s, simplec).asDiagonal()) : LD(s.Kuu.partialPivLu().inverse()); LD Want = s.Kpp - s.Kpu * X * s.Kup;
              LD Got = extract(s.np, s.np, [&](const backend::numa_vector<double> &e, backend::numa_vector<double> &y) { backend::spmv(1.0, P, e, 0.0, y); });
              long double tol = 4 * (n + 3) * EPS * (ninf(s.Kpp) + ninf(s.Kpu) * ninf(X) * ninf(s.Kup) + ninf(adjusted_pp(s, adjust, simplec)));
              c.check_le((double)nmax(Got - Want), (double)tol, std::string("schur:schur-operator:adjust_p") + std::to_string(adjust) + (approx ? ":approx" : ":exact"), "matrix-free operator used for the pressure solve is not Kpp - Kpu Kuu^-1 Kup (resp. its documented diagonal approximation)");
              // the operator as the inner pressure solvers use it: y = beta y + alpha S x (backend::spmv) and r = f - S x (backend::residual) at random x
              long double nS = ninf(s.Kpp) + ninf(s.Kpu) * ninf(X) * ninf(s.Kup) + ninf(adjusted_pp(s, adjust, simplec)); bool ok = true; double worst = 0; std::string wkey;
              static const double AL[4] = {1, -1, 2, 0.5}, BE[3] = {0, 1, -1};
              for (int ia = 0; ia < 4; ++ia) for (int ib = 0; ib < 3; ++ib) { backend::numa_vector<double> x(s.np), y(s.np); LV xd(s.np), yd(s.np); for (int i = 0; i < s.np; ++i) { x[i] = r.uni(-1, 1); y[i] = r.uni(-1, 1); xd(i) = x[i]; yd(i) = y[i]; }
                  backend::spmv(AL[ia], P, x, BE[ib], y); LV want = BE[ib] * yd + AL[ia] * (Want * xd); long double e = 0; for (int i = 0; i < s.np; ++i) e = std::max(e, fabsl((long double)y[i] - want(i)));
                  long double tl = 4 * (n + 3) * EPS * (std::fabs(AL[ia]) * nS + std::fabs(BE[ib])); if (!(e <= tl)) { if (ok) wkey = "alpha=" + std::to_string(AL[ia]) + " beta=" + std::to_string(BE[ib]); ok = false; worst = std::max(worst, (double)e); } }
              c.check(ok, std::string("schur:schur-operator:alpha-beta:adjust_p") + std::to_string(adjust) + (approx ? ":approx" : ":exact"), "backend::spmv(alpha, schur, x, beta, y) is not beta y + alpha (Kpp - Kpu Kuu^-1 Kup) x", J().s("first", wkey).n("worst_abs_err", worst));
              { backend::numa_vector<double> x(s.np), f(s.np), rr(s.np); LV xd(s.np), fd(s.np); for (int i = 0; i < s.np; ++i) { x[i] = r.uni(-1, 1); f[i] = r.uni(-1, 1); rr[i] = 777; xd(i) = x[i]; fd(i) = f[i]; }
                backend::residual(f, P, x, rr); LV want = fd - Want * xd; long double e = 0; for (int i = 0; i < s.np; ++i) e = std::max(e, fabsl((long double)rr[i] - want(i)));
                c.check_le((double)e, (double)(4 * (n + 3) * EPS * (nS + 1)), std::string("schur:schur-operator:residual:adjust_p") + std::to_string(adjust) + (approx ? ":approx" : ":exact"), "backend::residual(f, schur, x, r) is not f - (Kpp - Kpu Kuu^-1 Kup) x at x != 0"); } }
        } catch (const std::exception &e) { c.fail("schur:exception:blocks", e.what()); }
        c.nontrivial();
    }
}

//---------------------------------------------------------------------------
// schur_preonly: inner "solvers" are make_solver<Precond, preonly> (one application of a linear operator); the action must
// be the documented two-step formula with those operators.  Exercises make_solver, solver::preonly, preconditioner::dummy.
//---------------------------------------------------------------------------
static void sub_schur_preonly() {
    long N = vf::tier(240, 3600);
    typedef make_solver<ExactPrec<5>, solver::preonly<SB>> EX5; typedef make_solver<ExactPrec<6>, solver::preonly<SB>> EX6; typedef make_solver<preconditioner::dummy<SB>, solver::preonly<SB>> DUM;
    for (long idx = 0; idx < N; ++idx) {
        if (!sel("schur_preonly", idx)) continue;
        Rng r(vf::case_seed("schur_preonly", idx)); int maskkind = idx % 4, combo = (idx / 4) % 3; int n = (int)r.range(6, 24); bool simplec = r.coin(0.5);
        Saddle s = gen_saddle(r, n, maskkind, 2, true); Crs C = crs_of(s.K, r.coin(0.3) ? &r : nullptr);
        static const char *cn[] = {"exact-u,exact-p", "identity-u,exact-p", "exact-u,identity-p"};
        Case c("schur_preonly", idx, J().n("n", n).n("np", s.np).s("mask", s.maskname).s("inner", cn[combo]).bl("simplec_dia", simplec));
        for (int type = 1; type <= 2; ++type) for (int adjust = 0; adjust <= 2; ++adjust) {
            std::string tag = std::string(cn[combo]) + ":type" + std::to_string(type) + ":adjust_p" + std::to_string(adjust);
            LD Pm = adjusted_pp(s, adjust, simplec); if (cond_inf(Pm) > 1e6L) continue;
            LD Xu = combo == 1 ? LD(LD::Identity(s.nu, s.nu)) : LD(s.Kuu.partialPivLu().inverse()), Xp = combo == 2 ? LD(LD::Identity(s.np, s.np)) : LD(Pm.partialPivLu().inverse());
            LD Ref = schur_ref(s, type, Xu, Xp); double dmax = (double)kuu_dia_inv(s, simplec).cwiseAbs().maxCoeff();
            auto run = [&](auto *tagp) { typedef typename std::remove_pointer<decltype(tagp)>::type SPC;
                try { typename SPC::params p; p.pmask = s.mask; p.type = type; p.adjust_p = adjust; p.simplec_dia = simplec; p.approx_schur = false; SPC P(std::tie(C.n, C.ptr, C.col, C.val), p);
                    LD B = extract(n, n, [&](const backend::numa_vector<double> &f, backend::numa_vector<double> &x) { P.apply(f, x); });
                    // schur_tol plus the effect of the rounding in the assembly of the adjusted pressure matrix ((nu+3) eps (|C| + |B2| D |B1|) entrywise):
                    // dXp = Xp dP Xp changes p by <= s^2 ||dP|| (1 + b G) and u by G a times that
                    long double sp = ninf(Xp), G = ninf(Xu), dP = (s.nu + 3) * EPS * (ninf(s.Kpp) + ninf(s.Kpu) * dmax * ninf(s.Kup));
                    double tol = schur_tol(s, Xu, Xp, dmax) + (double)(4 * (1 + G * ninf(s.Kup)) * sp * sp * dP * (1 + ninf(s.Kpu) * G));
                    c.check_le((double)nmax(B - Ref), tol, "schur:preonly-formula:" + tag, "action with single-application inner operators differs from the documented two-step formula");
                } catch (const std::exception &e) { c.fail("schur:exception:preonly", tag + ": " + e.what()); } };
            if (combo == 0) run((preconditioner::schur_pressure_correction<EX5, EX6>*)nullptr); else if (combo == 1) run((preconditioner::schur_pressure_correction<DUM, EX6>*)nullptr); else run((preconditioner::schur_pressure_correction<EX5, DUM>*)nullptr);
        }
        c.nontrivial();
    }
}

//---------------------------------------------------------------------------
// schur_krylov: exactness of type 1 / type 2 with inner PRESSURE solvers that re-evaluate the true residual of the matrix-free
// Schur operator at non-zero iterates (restarted GMRES with a tiny restart, FGMRES, Richardson), run to tol_in = 1e-12 and
// preconditioned with the exact inverse of the adjusted pressure matrix.  Systems are generated with weak u-p coupling so that
// rho := || P^-1 (S - P) ||_inf < 1/2 (checked in the harness): Richardson then contracts by 2 per step and the residual-minimising
// methods are at least as fast, so 300 iterations reach 1e-12.  The inexact inner solve adds  ||S^-1|| tol_in (1 + b G) to dp.
//---------------------------------------------------------------------------
template <class P> auto set_restart(P &p, int m) -> decltype((void)(p.M = m)) { p.M = m; }
inline void set_restart(...) {}
template <class SPC> void krylov_case(Case &c, const Saddle &s, const Crs &C, const std::string &solver, bool simplec, const LD &Ki, const LD &Ti, const LD &Xu, const LD &Xp, Rng &r) {
    int n = s.n;
    for (int type = 1; type <= 2; ++type) for (int adjust = 0; adjust <= 2; ++adjust) {
        LD Pm = adjusted_pp(s, adjust, simplec); if (cond_inf(Pm) > 1e6L) continue; LD Pi = Pm.partialPivLu().inverse(); long double rho = ninf(Pi * (s.S - Pm)); if (!(rho < 0.5L)) { vf::obs_sum("krylov_configs_skipped_weak_preconditioner"); continue; }
        std::string tag = solver + ":type" + std::to_string(type) + ":adjust_p" + std::to_string(adjust);
        try { typename SPC::params p; p.pmask = s.mask; p.type = type; p.adjust_p = adjust; p.simplec_dia = simplec; p.approx_schur = false;
            p.psolver.solver.tol = 1e-12; p.psolver.solver.maxiter = 300; set_restart(p.psolver.solver, solver == "gmres(2)" ? 2 : 3);
            SPC P(std::tie(C.n, C.ptr, C.col, C.val), p);
            LD B = extract(n, n, [&](const backend::numa_vector<double> &f, backend::numa_vector<double> &x) { P.apply(f, x); });
            long double G = ninf(Xu), sp = ninf(Xp), a = ninf(s.Kup), b = ninf(s.Kpu);
            double tol = schur_tol(s, Xu, Xp, 0) + (double)(4 * (1 + G * a) * sp * 1e-11L * (1 + b * G) * (1 + ninf(s.Kpp) + b * G * a));
            c.check_le((double)nmax(B - (type == 1 ? Ki : Ti)), tol, "schur:krylov-inner:" + tag, type == 1 ? "type 1 with an exact flow solve and a converged Krylov pressure solve is not K^-1" : "type 2 with an exact flow solve and a converged Krylov pressure solve is not the inverse of the block upper triangular matrix");
            vf::obs_sum("krylov_configs_checked");
        } catch (const std::exception &e) { c.fail("schur:exception:krylov", tag + ": " + e.what()); }
    }
    (void)r;
}
static void sub_schur_krylov() {
    long N = vf::tier(120, 1800);
    typedef make_solver<ExactPrec<70>, solver::gmres<SB>> PG; typedef make_solver<ExactPrec<71>, solver::fgmres<SB>> PF; typedef make_solver<ExactPrec<72>, solver::richardson<SB>> PR;
    for (long idx = 0; idx < N; ++idx) {
        if (!sel("schur_krylov", idx)) continue;
        Rng r(vf::case_seed("schur_krylov", idx)); int maskkind = idx % 4, which = (idx / 4) % 3; int n = (int)r.range(6, 24); bool simplec = r.coin(0.5);
        Saddle s = gen_saddle(r, n, maskkind, 2, true, 0.25); Crs C = crs_of(s.K, r.coin(0.3) ? &r : nullptr);
        static const char *sn[] = {"gmres(2)", "fgmres(3)", "richardson"};
        Case c("schur_krylov", idx, J().n("n", n).n("np", s.np).s("mask", s.maskname).s("psolver", sn[which]).bl("simplec_dia", simplec));
        LD Ki = s.K.partialPivLu().inverse(), Xu = s.Kuu.partialPivLu().inverse(), Xp = s.S.partialPivLu().inverse();
        LD T = LD::Zero(n, n); for (int a = 0; a < s.nu; ++a) { for (int b = 0; b < s.nu; ++b) T(s.iu[a], s.iu[b]) = s.Kuu(a, b); for (int b = 0; b < s.np; ++b) T(s.iu[a], s.ip[b]) = s.Kup(a, b); } for (int a = 0; a < s.np; ++a) for (int b = 0; b < s.np; ++b) T(s.ip[a], s.ip[b]) = s.S(a, b);
        LD Ti = T.partialPivLu().inverse();
        if (which == 0) krylov_case<preconditioner::schur_pressure_correction<ExactSolver<73>, PG>>(c, s, C, sn[which], simplec, Ki, Ti, Xu, Xp, r);
        else if (which == 1) krylov_case<preconditioner::schur_pressure_correction<ExactSolver<74>, PF>>(c, s, C, sn[which], simplec, Ki, Ti, Xu, Xp, r);
        else krylov_case<preconditioner::schur_pressure_correction<ExactSolver<75>, PR>>(c, s, C, sn[which], simplec, Ki, Ti, Xu, Xp, r);
        c.nontrivial();
    }
}

//---------------------------------------------------------------------------
// CPR.  A: nb block rows of size b (pressure first in each block) plus an optional unstructured tail.
//---------------------------------------------------------------------------
struct Res { int b, nb, N, n; LD A; std::vector<char> bpat; };
static Res gen_reservoir(Rng &r, int b, int nb, int tail, bool positive_first_column) {
    Res R; R.b = b; R.nb = nb; R.N = b * nb; R.n = R.N + tail; int n = R.n; R.A = LD::Zero(n, n); R.bpat.assign((size_t)nb * nb, 0);
    for (int i = 0; i < nb; ++i) for (int j = 0; j < nb; ++j) if (i == j || r.coin(nb <= 6 ? 0.4 : 0.2)) R.bpat[(size_t)i * nb + j] = 1;
    // half of the systems have structurally sparse diagonal blocks (in-block couplings not stored), as a scalar assembly of a
    // multi-phase system produces when a phase is absent from a cell; the blocks stay strictly diagonally dominant
    const double pdiag = r.coin(0.5) ? 0.5 : 0.0;
    for (int i = 0; i < R.N; ++i) for (int j = 0; j < R.N; ++j) { if (i == j || !R.bpat[(size_t)(i / b) * nb + j / b]) continue; bool diagblk = i / b == j / b; if (r.coin(diagblk ? pdiag : 0.3)) continue; double v = r.uni(-1, 1) * (diagblk ? 0.6 : 0.4); if (positive_first_column && j % b == 0) v = std::fabs(v); R.A(i, j) = v; }
    for (int i = R.N; i < n; ++i) for (int j = 0; j < n; ++j) if (i != j && r.coin(0.3)) { R.A(i, j) = r.uni(-0.5, 0.5); if (r.coin(0.7)) R.A(j, i) = r.uni(-0.5, 0.5); }
    for (int i = 0; i < n; ++i) { long double s = 0; for (int j = 0; j < n; ++j) if (j != i) s += fabsl(R.A(i, j)); R.A(i, i) = (double)((s + 0.3) * 1.3); }
    return R;
}
// documented weighting: row ip of Fpp holds the first row of the inverse of the diagonal block; App = Fpp A restricted to pressure columns
static void cpr_reference(const Res &R, LD &F, LD &App, LD &Sc, double &kD) {
    int b = R.b, nb = R.nb; F = LD::Zero(nb, R.N); App = LD::Zero(nb, nb); Sc = LD::Zero(R.n, nb); kD = 1;
    for (int ip = 0; ip < nb; ++ip) { LD D = R.A.block(ip * b, ip * b, b, b); LD Di = D.partialPivLu().inverse(); kD = std::max(kD, (double)(ninf(D) * ninf(Di)));
        for (int k = 0; k < b; ++k) F(ip, ip * b + k) = Di(0, k); Sc(ip * b, ip) = 1;
        for (int cp = 0; cp < nb; ++cp) { long double s = 0; for (int k = 0; k < b; ++k) s += Di(0, k) * R.A(ip * b + k, cp * b); App(ip, cp) = s; } }
}
// structure of the pressure matrix: one entry per block of A (restricted to active rows / columns) that stores anything
static bool app_pattern_ok(const SM &App, const Res &R, const Crs &C, std::string &why) {
    if ((int)App.nrows != R.nb || (int)App.ncols != R.nb) { why = "shape"; return false; }
    std::vector<char> want((size_t)R.nb * R.nb, 0); for (int i = 0; i < R.N; ++i) for (auto j = C.ptr[i]; j < C.ptr[i + 1]; ++j) if (C.col[j] < R.N) want[(size_t)(i / R.b) * R.nb + C.col[j] / R.b] = 1;
    std::vector<char> got((size_t)R.nb * R.nb, 0);
    for (int i = 0; i < R.nb; ++i) for (auto j = App.ptr[i]; j < App.ptr[i + 1]; ++j) { auto cc = App.col[j]; if (cc < 0 || cc >= R.nb) { why = "column out of range"; return false; } if (got[(size_t)i * R.nb + cc]) { why = "duplicate entry"; return false; } got[(size_t)i * R.nb + cc] = 1; }
    if (want != got) { why = "pattern is not the block pattern of A"; return false; } return true;
}
template <class CPR> LD cpr_action(const CPR &P, int n) { return extract(n, n, [&](const backend::numa_vector<double> &f, backend::numa_vector<double> &x) { P.apply(f, x); }); }
template <int B, class CPRB> LD cpr_block_action(const CPRB &P, int n) {
    typedef static_matrix<double, B, B> Bk; LD M(n, n); std::vector<double> e(n, 0.0), x(n, 0.0);
    for (int j = 0; j < n; ++j) { e[j] = 1; std::fill(x.begin(), x.end(), 0.0); auto F = backend::reinterpret_as_rhs<Bk>(e); auto X = backend::reinterpret_as_rhs<Bk>(x); P.apply(F, X); e[j] = 0; for (int i = 0; i < n; ++i) M(i, j) = x[i]; }
    return M;
}
static uint64_t dig(const LD &M) { return vf::digest_ld(M); }
// partial_update + action in a forked child (single-threaded jobs only): 0 same action, 1 different, 2 child died / hung
template <class CPR> int partial_update_isolated(CPR &P, const Crs &C, bool ut, uint64_t want, int n, std::string &info) {
    int fd[2]; if (pipe(fd)) { perror("pipe"); exit(3); } fflush(stdout); fflush(stderr);
    pid_t pid = fork(); if (pid < 0) { perror("fork"); exit(3); }
    if (pid == 0) { close(fd[0]); int e = open("/dev/null", O_WRONLY); if (e >= 0) { dup2(e, 2); close(e); }
        uint64_t d = 0; try { P.partial_update(std::tie(C.n, C.ptr, C.col, C.val), ut); LD B2 = cpr_action(P, n); d = dig(B2); } catch (...) { d = 1; }
        if (write(fd[1], &d, sizeof d) != (ssize_t)sizeof d) _exit(7); _exit(0); }
    close(fd[1]); uint64_t d = 0; size_t have = 0; bool hung = false;
    while (have < sizeof d) { pollfd pf; pf.fd = fd[0]; pf.events = POLLIN; pf.revents = 0; int pr = poll(&pf, 1, 300000); if (pr == 0) { hung = true; kill(pid, SIGKILL); break; } if (pr < 0) { if (errno == EINTR) continue; break; }
        ssize_t k = read(fd[0], (char*)&d + have, sizeof d - have); if (k <= 0) break; have += k; }
    close(fd[0]); int st = 0; waitpid(pid, &st, 0);
    if (have < sizeof d) { info = hung ? "no return within the watchdog" : WIFSIGNALED(st) ? "child died with signal " + std::to_string(WTERMSIG(st)) : "child exited with " + std::to_string(WEXITSTATUS(st)); return 2; }
    return d == want ? 0 : 1;
}

template <int Tag, template <class, class> class CPRT, class SP> void cpr_compose_check(Case &c, const std::string &name, const Res &R, const Crs &C, int active, bool drs, const std::vector<double> *weights, double eps_dd, double eps_ps) {
    typedef CPRT<ExactPrec<Tag>, SP> CPR; int n = R.n;
    try {
        typename CPR::params p; p.block_size = R.b; p.active_rows = active;
        if constexpr (std::is_same<CPR, preconditioner::cpr_drs<ExactPrec<Tag>, SP>>::value) { p.eps_dd = eps_dd; p.eps_ps = eps_ps; if (weights) p.weights = *weights; }
        CPR P(std::tie(C.n, C.ptr, C.col, C.val), p);
        std::shared_ptr<SM> rApp = rec<Tag>().last; std::string why;
        c.check(app_pattern_ok(*rApp, R, C, why), name + ":pressure-matrix:pattern", "pressure matrix handed to PPrecond: " + why);
        LD Fl = dense_of(*ACC::Fpp(P)), Sl = dense_of(*ACC::Scatter(P)), Ap = dense_of(*rApp);
        LD Fr, Ar, Sr; double kD; cpr_reference(R, Fr, Ar, Sr, kD);
        bool shapes = Fl.rows() == R.nb && Fl.cols() >= R.N && Fl.cols() <= n && Sl.rows() == n && Sl.cols() == R.nb && Ap.rows() == R.nb && Ap.cols() == R.nb;
        if (!c.check(shapes, name + ":transfer-shapes", "Fpp / Scatter / App have unexpected shapes")) return;
        LD Fl0 = LD::Zero(R.nb, n); Fl0.leftCols(Fl.cols()) = Fl; LD Fr0 = LD::Zero(R.nb, n); Fr0.leftCols(R.N) = Fr;
        c.check(nmax(Sl - Sr) == 0, name + ":scatter", "Scatter is not the injection of the pressure unknowns (first unknown of each block)");
        if (!drs) {
            // first row of the inverse diagonal block: LU without pivoting of a b x b dominant block, bound 8 b^2 eps kappa(D) |Di(0,:)|
            long double tolF = 8.0 * R.b * R.b * EPS * kD * (nmax(Fr) + 1e-300L);
            c.check_le((double)nmax(Fl0 - Fr0), (double)tolF, name + ":Fpp:first-row-of-inverse-block", "Fpp is not the first row of the inverse of the diagonal block");
            bool ok = true; double worst = 0; for (int i = 0; i < R.nb; ++i) for (int j = 0; j < R.nb; ++j) { long double sa = 0; for (int k = 0; k < R.b; ++k) sa += fabsl(Fr(i, i * R.b + k) * R.A(i * R.b + k, j * R.b)); long double an = 0; for (int k = 0; k < R.b; ++k) an += fabsl(R.A(i * R.b + k, j * R.b));
                // App = Fpp A: the (normwise) rounding error tolF of the computed first row of the inverse block propagates as tolF * sum_k |a_kj|
                // (it does so even where the exact weight is 0, e.g. for structurally sparse diagonal blocks), plus the rounding of the b-term sum
                long double tol = (8.0 * R.b * R.b * kD + R.b + 2) * EPS * sa + tolF * an + 1e-300L; long double e = fabsl(Ap(i, j) - Ar(i, j)); if (!(e <= tol)) { ok = false; worst = std::max(worst, (double)e); } }
            c.check(ok, name + ":pressure-matrix:value", "pressure matrix is not the first-row-of-inverse-diagonal-block weighting of A", J().n("worst_abs_err", worst).n("b", R.b));
        } else {
            // DRS: the pressure matrix is the weighting of A by the transfer operator actually used; weights are 0 or the given weight, the pressure equation keeps its weight
            bool okw = true; for (int ip = 0; ip < R.nb; ++ip) for (int k = 0; k < R.b; ++k) { double w = weights ? (*weights)[ip * R.b + k] : 1.0; long double f = Fl0(ip, ip * R.b + k); if (!(f == (long double)w || (k > 0 && f == 0))) okw = false; }
            for (int i = 0; i < R.nb; ++i) for (int j = 0; j < n; ++j) if (j / R.b != i && Fl0(i, j) != 0) okw = false;
            c.check(okw, name + ":Fpp:weights", "DRS transfer operator holds something else than the given weight or 0 (or drops the pressure equation)");
            if (eps_dd == 0 && eps_ps == 0) { bool all = true; for (int ip = 0; ip < R.nb; ++ip) for (int k = 0; k < R.b; ++k) if (Fl0(ip, ip * R.b + k) != (long double)(weights ? (*weights)[ip * R.b + k] : 1.0)) all = false; c.check(all, name + ":Fpp:no-dropping-with-zero-thresholds", "eps_dd = eps_ps = 0 with non-negative pressure couplings must keep every weight"); }
            bool ok = true; for (int i = 0; i < R.nb; ++i) for (int j = 0; j < R.nb; ++j) { long double s = 0, sa = 0; for (int k = 0; k < R.b; ++k) { s += Fl0(i, i * R.b + k) * R.A(i * R.b + k, j * R.b); sa += fabsl(Fl0(i, i * R.b + k) * R.A(i * R.b + k, j * R.b)); } if (!(fabsl(Ap(i, j) - s) <= (R.b + 2) * EPS * sa + 1e-300L)) ok = false; }
            c.check(ok, name + ":pressure-matrix:value", "pressure matrix is not Fpp A restricted to the pressure columns");
        }
        // composition: B = S + Scatter P Fpp (I - A S) with the operators actually held by the object.
        // S f and P (.) are deterministic, so only the residual, the two spmv's and the final update round:
        //   tol = 16 (n eps + eps) (||S|| + ||Scatter P Fpp|| (1 + ||A|| ||S||))
        LD Sd = extract(n, n, [&](const backend::numa_vector<double> &f, backend::numa_vector<double> &x) { ACC::S(P)->apply(f, x); });
        LD Pd = extract(R.nb, R.nb, [&](const backend::numa_vector<double> &f, backend::numa_vector<double> &x) { ACC::P(P)->apply(f, x); });
        LD Bref = Sd + Sl * Pd * Fl0 * (LD::Identity(n, n) - R.A * Sd); LD B = cpr_action(P, n);
        long double tol = 16 * (n + 1) * EPS * (ninf(Sd) + ninf(Sl * Pd * Fl0) * (1 + ninf(R.A) * ninf(Sd)));
        c.check_le((double)nmax(B - Bref), (double)tol, name + ":action-formula", "apply() is not S f + Scatter P Fpp (f - A S f)");
        c.check(nmax(dense_of(P.system_matrix()) - R.A) == 0, name + ":system-matrix", "system_matrix() is not A");
        // exact pressure solve: P is the inverse of the pressure matrix (sanity of the recording preconditioner + library wiring)
        { long double kA = cond_inf(Ap); if (kA < 1e8L) c.check_le((double)nmax(Pd * Ap - LD::Identity(R.nb, R.nb)), (double)(8 * R.nb * EPS * kA), name + ":pprecond-sees-pressure-matrix", "the pressure preconditioner was not built for the pressure matrix"); }
        // partial update with the unchanged matrix leaves the action bitwise unchanged
        for (int ut = 1; ut >= 0; --ut) { std::string key = name + (ut ? ":partial_update:with-transfer" : ":partial_update:without-transfer");
            if (omp_get_max_threads() == 1) { std::string info; int rc = partial_update_isolated(P, C, (bool)ut, dig(B), n, info);
                c.check(rc != 2, key + ":crash", "partial_update with the unchanged matrix crashed: " + info, J().n("b", R.b).n("active_rows", active));
                c.check(rc != 1, key, "partial_update with the unchanged matrix changed the action"); }
            else { P.partial_update(std::tie(C.n, C.ptr, C.col, C.val), (bool)ut); LD B2 = cpr_action(P, n); c.check(dig(B2) == dig(B), key, "partial_update with the unchanged matrix changed the action", J().n("max_diff", (double)nmax(B2 - B))); } }
    } catch (const std::exception &e) { c.fail(name + ":exception", e.what()); }
}

template <int B, int Tag, template <class, class> class CPRT> void cpr_block_vs_scalar(Case &c, const std::string &name, const Res &R, Rng &r, int active_blocks) {
    typedef static_matrix<double, B, B> Bk; typedef backend::builtin<Bk> BB; int n = R.n;
    // block input needs complete blocks: store every entry of every present block
    std::vector<char> keep((size_t)n * n, 0); for (int i = 0; i < n; ++i) for (int j = 0; j < n; ++j) if (R.bpat[(size_t)(i / B) * R.nb + j / B]) keep[(size_t)i * n + j] = 1;
    Crs C = crs_of(R.A, nullptr, &keep);
    try {
        typedef CPRT<ExactPrec<Tag>, preconditioner::dummy<SB>> CS; typedef CPRT<ExactPrec<Tag + 1>, preconditioner::dummy<BB>> CB;
        typename CS::params ps; ps.block_size = B; ps.active_rows = active_blocks * B; CS Ps(std::tie(C.n, C.ptr, C.col, C.val), ps); std::shared_ptr<SM> As = rec<Tag>().last; LD Bs = cpr_action(Ps, n);
        typename CB::params pb; pb.active_rows = active_blocks; auto At = std::tie(C.n, C.ptr, C.col, C.val); CB Pb(adapter::block_matrix<Bk>(At), pb); std::shared_ptr<SM> Ab = rec<Tag + 1>().last; LD Bb = cpr_block_action<B>(Pb, n);
        std::string why; bool wf = true; for (size_t i = 0; i < Ab->nrows && wf; ++i) for (auto j = Ab->ptr[i]; j < Ab->ptr[i + 1]; ++j) if (Ab->col[j] < 0 || Ab->col[j] >= (ptrdiff_t)Ab->ncols) { wf = false; break; }
        if (!c.check(wf, name + ":block-input:pressure-matrix:column-out-of-range", "block input: pressure matrix has column indices outside its declared size", J().n("active_blocks", active_blocks).n("nb", R.nb))) return;
        LD Ds = dense_of(*As), Db = dense_of(*Ab);
        bool shp = Ds.rows() == Db.rows() && Ds.cols() == Db.cols();
        if (!c.check(shp, name + ":block-vs-scalar:pressure-matrix-shape", "scalar and block input give pressure matrices of different shape", J().n("scalar_rows", (long)Ds.rows()).n("block_rows", (long)Db.rows()).n("scalar_cols", (long)Ds.cols()).n("block_cols", (long)Db.cols()))) return;
        // same formula evaluated in two ways: entries agree to the rounding bound of the b x b inversion (see cpr_reference)
        LD Fr, Ar, Sr; double kD; cpr_reference(R, Fr, Ar, Sr, kD); long double tolA = 2 * (8.0 * B * B * kD + B + 2) * EPS * (nmax(Fr) * ninf(R.A) + 1e-300L);
        c.check_le((double)nmax(Ds - Db), (double)tolA, name + ":block-vs-scalar:pressure-matrix", "pressure matrix differs between scalar input with block_size b and b x b block input");
        // B = I + Sc App^-1 F (I - A) in both cases; dB <= ||App^-1|| ||dApp|| ||App^-1|| ||F|| (1+||A||) + ||App^-1|| ||dF|| (1+||A||) + rounding of the apply
        LD Dsi = Ds.partialPivLu().inverse(); long double Ai = ninf(Dsi), base = Ai * ninf(Fr) * (1 + ninf(R.A)), tolF = 2 * 8.0 * B * B * EPS * kD * nmax(Fr);
        long double tolB = 4 * (Ai * Ds.rows() * tolA * base + Ai * B * tolF * (1 + ninf(R.A)) + 32 * (n + 1) * EPS * (1 + base));
        c.check_le((double)nmax(Bs - Bb), (double)tolB, name + ":block-vs-scalar:action", "action differs between scalar input with block_size b and b x b block input (identity global stage)");
        vf::obs_sum(dig(Bs) == dig(Bb) ? "cpr_block_scalar_bitwise_equal" : "cpr_block_scalar_rounding_differs");
        if (active_blocks == 0) {
            // block-input partial_update histories: unchanged matrix (action bitwise unchanged), then a perturbed matrix without and with
            // transfer update, compared with the scalar-input twin (rounding bound as above), with a freshly constructed block object
            // (transfer operator) and with the formula I + Scatter P Fpp (I - A2) built from the operators the object holds.
            const bool drs = std::is_same<CB, preconditioner::cpr_drs<ExactPrec<Tag + 1>, preconditioner::dummy<BB>>>::value;
            for (int ut = 1; ut >= 0; --ut) { Pb.partial_update(adapter::block_matrix<Bk>(At), (bool)ut); LD B2 = cpr_block_action<B>(Pb, n);
                c.check(dig(B2) == dig(Bb), name + (ut ? ":block-input:partial_update:with-transfer" : ":block-input:partial_update:without-transfer"), "block input: partial_update with the unchanged matrix changed the action", J().n("max_diff", (double)nmax(B2 - Bb)).n("b", B)); }
            Res R2 = R; for (int i = 0; i < n; ++i) for (int j = 0; j < n; ++j) if (i != j && R2.A(i, j) != 0) R2.A(i, j) = (double)(R2.A(i, j) * (1 + 0.3 * r.uni(-1, 1)));
            for (int i = 0; i < n; ++i) { long double sm = 0; for (int j = 0; j < n; ++j) if (j != i) sm += fabsl(R2.A(i, j)); R2.A(i, i) = (double)((sm + 0.3) * 1.3); }
            Crs C2 = crs_of(R2.A, nullptr, &keep); auto At2 = std::tie(C2.n, C2.ptr, C2.col, C2.val);
            LD Fr2, Ar2, Sr2; double kD2; cpr_reference(R2, Fr2, Ar2, Sr2, kD2); long double tolF2 = 2 * 8.0 * B * B * EPS * kD2 * nmax(Fr2), nF = std::max<long double>(std::max(ninf(Fr), ninf(Fr2)), B), nA2 = ninf(R2.A);
            long double base2 = Ai * nF * (1 + nA2), tolB2 = 4 * (Ai * Ds.rows() * tolA * base2 + Ai * B * std::max(tolF, tolF2) * (1 + nA2) + 32 * (n + 1) * EPS * (1 + base2));
            LD Fbefore = dense_of(*ACC::Fpp(Pb));
            for (int ut = 0; ut <= 1; ++ut) { std::string k2 = name + (ut ? ":block-input:partial_update:perturbed:with-transfer" : ":block-input:partial_update:perturbed:without-transfer");
                Pb.partial_update(adapter::block_matrix<Bk>(At2), (bool)ut); Ps.partial_update(At2, (bool)ut);
                LD Fl = dense_of(*ACC::Fpp(Pb)), Sl = dense_of(*ACC::Scatter(Pb)), Bb2 = cpr_block_action<B>(Pb, n), Bs2 = cpr_action(Ps, n);
                if (!ut) c.check(nmax(Fl - Fbefore) == 0, k2 + ":Fpp-changed", "block input: partial_update(K, false) changed the transfer operator");
                else { CB Pf(adapter::block_matrix<Bk>(At2), pb); LD Ff = dense_of(*ACC::Fpp(Pf));
                    c.check_le((double)nmax(Fl - Ff), (double)(drs ? 0 : tolF2), k2 + ":Fpp-vs-fresh-object", "block input: transfer operator after partial_update(K, true) differs from the one of a freshly constructed object");
                    if (!drs) { LD Fr0 = LD::Zero(Fl.rows(), Fl.cols()); Fr0.leftCols(std::min<long>(Fr2.cols(), Fl.cols())) = Fr2.leftCols(std::min<long>(Fr2.cols(), Fl.cols())); c.check_le((double)nmax(Fl - Fr0), (double)(tolF2 + 1e-300L), k2 + ":Fpp:first-row-of-inverse-block", "block input: Fpp after partial_update(K, true) is not the first row of the inverse of the diagonal block"); }
                    vf::obs_sum(nmax(Fl - Ff) == 0 ? "cpr_block_update_fpp_bitwise_fresh" : "cpr_block_update_fpp_rounding_differs"); }
                c.check_le((double)nmax(Bb2 - Bs2), (double)tolB2, k2 + ":vs-scalar-twin", "block input: action after partial_update with a perturbed matrix differs from the scalar-input twin");
                LD Pd = extract(Ds.rows(), Ds.rows(), [&](const backend::numa_vector<double> &f, backend::numa_vector<double> &x) { ACC::P(Pb)->apply(f, x); }); LD M = Sl * Pd * Fl;
                LD Bform = LD::Identity(n, n) + M * (LD::Identity(n, n) - R2.A);
                c.check_le((double)nmax(Bb2 - Bform), (double)(16 * (n + 1) * EPS * (1 + ninf(M) * (1 + nA2))), k2 + ":action-formula", "block input: action after partial_update is not f + Scatter P Fpp (f - A2 f)"); }
            vf::obs_sum("cpr_block_partial_update_histories");
        }
    } catch (const std::exception &e) { c.fail(name + ":exception:block-vs-scalar", e.what()); }
}

static void sub_cpr() {
    long N = vf::tier(360, 6000);
    for (long idx = 0; idx < N; ++idx) {
        if (!sel("cpr", idx)) continue;
        Rng r(vf::case_seed("cpr", idx)); int b = 2 + idx % 3, nb = (int)r.range(2, idx % 7 == 0 ? 14 : 8); int tail = (idx / 3) % 3 == 2 ? (int)r.range(1, 4) : 0; int sp = (idx / 9) % 3; bool shuffle = false;
        Res R = gen_reservoir(r, b, nb, tail, false); Crs C = crs_of(R.A, shuffle ? &r : nullptr); int active = tail ? R.N : (r.coin(0.3) ? R.N : 0);
        static const char *sn[] = {"dummy", "spai0", "exact"};
        Case c("cpr", idx, J().n("b", b).n("nb", nb).n("tail", tail).n("active_rows", active).s("sprecond", sn[sp]).n("threads", omp_get_max_threads()));
        if (sp == 0) cpr_compose_check<10, preconditioner::cpr, preconditioner::dummy<SB>>(c, "cpr", R, C, active, false, nullptr, 0, 0);
        else if (sp == 1) cpr_compose_check<11, preconditioner::cpr, relaxation::as_preconditioner<SB, relaxation::spai0>>(c, "cpr", R, C, active, false, nullptr, 0, 0);
        else cpr_compose_check<12, preconditioner::cpr, ExactPrec<13>>(c, "cpr", R, C, active, false, nullptr, 0, 0);
        if (!tail) { if (b == 2) cpr_block_vs_scalar<2, 20, preconditioner::cpr>(c, "cpr", R, r, 0); else if (b == 3) cpr_block_vs_scalar<3, 22, preconditioner::cpr>(c, "cpr", R, r, 0); else cpr_block_vs_scalar<4, 24, preconditioner::cpr>(c, "cpr", R, r, 0); }
        c.nontrivial(); vf::obs_add("cpr_block_sizes", std::to_string(b)); if (active) vf::obs_sum("cpr_active_rows_cases");
        vf::sample("cpr", J().n("b", b).n("nb", nb).n("tail", tail).s("sprecond", sn[sp]));
    }
}
static void sub_cpr_drs() {
    long N = vf::tier(360, 6000);
    for (long idx = 0; idx < N; ++idx) {
        if (!sel("cpr_drs", idx)) continue;
        Rng r(vf::case_seed("cpr_drs", idx)); int b = 2 + idx % 3, nb = (int)r.range(2, 8); int tail = (idx / 3) % 3 == 2 ? (int)r.range(1, 4) : 0; int thr = (idx / 9) % 3; bool use_w = (idx / 27) % 2;
        Res R = gen_reservoir(r, b, nb, tail, true); Crs C = crs_of(R.A); int active = tail ? R.N : (r.coin(0.3) ? R.N : 0);
        std::vector<double> w(R.N); for (auto &x : w) x = r.uni(0.5, 2.0); double eps_dd = thr == 0 ? 0 : thr == 1 ? 0.2 : 5.0, eps_ps = thr == 0 ? 0 : thr == 1 ? 0.02 : 0.8;
        Case c("cpr_drs", idx, J().n("b", b).n("nb", nb).n("tail", tail).n("active_rows", active).n("eps_dd", eps_dd).n("eps_ps", eps_ps).bl("weights", use_w));
        if (idx % 2) cpr_compose_check<14, preconditioner::cpr_drs, preconditioner::dummy<SB>>(c, "cpr_drs", R, C, active, true, use_w ? &w : nullptr, eps_dd, eps_ps);
        else cpr_compose_check<15, preconditioner::cpr_drs, relaxation::as_preconditioner<SB, relaxation::spai0>>(c, "cpr_drs", R, C, active, true, use_w ? &w : nullptr, eps_dd, eps_ps);
        if (!tail && !use_w) { if (b == 2) cpr_block_vs_scalar<2, 30, preconditioner::cpr_drs>(c, "cpr_drs", R, r, 0); else if (b == 3) cpr_block_vs_scalar<3, 32, preconditioner::cpr_drs>(c, "cpr_drs", R, r, 0); else cpr_block_vs_scalar<4, 34, preconditioner::cpr_drs>(c, "cpr_drs", R, r, 0); }
        c.nontrivial();
    }
}
// active_rows with block input: the tail consists of whole blocks that are not part of the pressure system
static void sub_cpr_active_block() {
    long N = vf::tier(96, 1200);
    for (long idx = 0; idx < N; ++idx) {
        if (!sel("cpr_active_block", idx)) continue;
        Rng r(vf::case_seed("cpr_active_block", idx)); int b = 2 + idx % 3, nb = (int)r.range(3, 8), act = (int)r.range(1, nb - 1);
        Res R = gen_reservoir(r, b, nb, 0, false);
        Case c("cpr_active_block", idx, J().n("b", b).n("nb", nb).n("active_blocks", act));
        // reference through the scalar path restricted to the leading act blocks: compare pressure matrices of scalar (active_rows = act*b) and block (active_rows = act) input
        if (b == 2) cpr_block_vs_scalar<2, 40, preconditioner::cpr>(c, "cpr:active_rows", R, r, act); else if (b == 3) cpr_block_vs_scalar<3, 42, preconditioner::cpr>(c, "cpr:active_rows", R, r, act); else cpr_block_vs_scalar<4, 44, preconditioner::cpr>(c, "cpr:active_rows", R, r, act);
        c.nontrivial();
    }
}

//---------------------------------------------------------------------------
// deflated_solver: truthful solution of the original system; projection leaves a residual orthogonal to Z
//---------------------------------------------------------------------------
typedef amg<SB, coarsening::smoothed_aggregation, relaxation::spai0> AMG;
template <class DS> void deflated_case(Case &c, const std::string &name, const vf::Csr<double> &A, int nv, Rng &r) {
    size_t n = A.n; std::vector<double> Z((size_t)nv * n);
    int nx = std::max(1, (int)std::sqrt((double)n));
    for (int k = 0; k < nv; ++k) for (size_t i = 0; i < n; ++i) { double v; if (k == 0) v = 1.0; else if (k % 2) v = ((int)(i % nx) * (k + 1) / nx) % 2 ? 1.0 : 0.0; else v = ((int)(i / nx) * k / std::max(1, (int)(n / nx))) % 2 ? 1.0 : 0.0; Z[(size_t)k * n + i] = v + 0.05 * r.uni(-1, 1); }
    LD Ad = vf::to_dense(A); LD Zd(n, nv); for (int k = 0; k < nv; ++k) for (size_t i = 0; i < n; ++i) Zd(i, k) = Z[(size_t)k * n + i];
    LD E = Zd.transpose() * Ad * Zd; long double kE = cond_inf(E); if (!(kE < 1e10L)) { vf::obs_sum("deflation_basis_rejected"); return; }
    LD Ei = E.partialPivLu().inverse(); const long double nA = ninf(Ad), zF = Zd.norm(), zmax = Zd.cwiseAbs().maxCoeff(), sq = std::sqrt((long double)n);
    try {
        typename DS::params p; p.nvec = nv; p.vec = Z.data(); p.solver.tol = 1e-8; p.solver.maxiter = 20000;   // far above what unpreconditioned CG needs on the model family (kappa <= 1e5)
        if constexpr (std::is_same<DS, deflated_solver<AMG, solver::cg<SB>>>::value) p.precond.coarse_enough = 50;
        DS S(A.tie(), p);
        // inverted coarse matrix held by the object: assembly rounding 4 n eps |Z|^T|A||Z| amplified by kappa(E), plus the GEPP inversion bound of C16
        { LD El(nv, nv); auto &Ev = ACC::E(S); for (int i = 0; i < nv; ++i) for (int j = 0; j < nv; ++j) El(i, j) = Ev[i * nv + j];
          long double asm_rel = 4 * n * EPS * ninf(Zd.cwiseAbs().transpose() * Ad.cwiseAbs() * Zd.cwiseAbs()) / ninf(E);
          long double tol = 4 * (3.0 * nv * nv * nv * std::pow(2.0, nv - 1) * EPS + asm_rel) * kE * ninf(Ei);
          c.check_le((double)ninf(El - Ei), (double)tol, name + ":coarse-matrix", "E is not (Z^T A Z)^-1"); }
        std::vector<double> f = vf::random_vector(n, r), x(n, 0.0); if (r.coin(0.5)) x = vf::random_vector(n, r);
        long double nf = 0; for (double v : f) nf = std::max(nf, (long double)std::fabs(v));
        auto res = [&](const std::vector<double> &v) { auto Av = vf::spmv_ld(A, v); LV rr(n); for (size_t i = 0; i < n; ++i) rr(i) = (long double)f[i] - Av[i]; return rr; };
        // First-order rounding model of  x' = x + Z d^,  d^ = fl(E^-1) fl(Z^T fl(f - A x)):
        //   dd := ||d^ - d|| <= 8 eps (n + nv) kappa(E) (||d|| + ||E^-1|| ||Z||_F (||r|| + sqrt(n) (||f||_inf + ||A||_inf ||x||_inf)))
        //   Z^T (f - A x') = E (d - d^) - Z^T A rho,  |rho| <= 2 eps (|x| + |Z||d|)
        auto orth_check = [&](const std::vector<double> &y0, const std::vector<double> &y1, const std::string &key, const std::string &text, bool formula) {
            LV r0 = res(y0), r1 = res(y1); LV d = E.partialPivLu().solve(Zd.transpose() * r0); long double ny = 0; for (double v : y0) ny = std::max(ny, (long double)std::fabs(v));
            long double dd = 8 * EPS * (n + nv) * kE * (d.norm() + ninf(Ei) * zF * (r0.norm() + sq * (nf + nA * ny)));
            long double rho = 2 * EPS * (ny + nv * zmax * d.cwiseAbs().maxCoeff());
            long double tol = 2 * (ninf(E) * dd + sq * zF * nA * rho);
            LV zr = Zd.transpose() * r1; c.check_le((double)zr.cwiseAbs().maxCoeff(), (double)tol, name + ":" + key, text);
            vf::obs_max("max_deflation_orth_over_tol", (double)(zr.cwiseAbs().maxCoeff() / tol));
            if (formula) { LV want(n); for (size_t i = 0; i < n; ++i) want(i) = y0[i]; want += Zd * d; long double e = 0; for (size_t i = 0; i < n; ++i) e = std::max(e, fabsl((long double)y1[i] - want(i)));
                c.check_le((double)e, (double)(2 * (nv * zmax * dd + rho)), name + ":projection-formula", "project() is not x += Z (Z^T A Z)^-1 Z^T (f - A x)"); }
        };
        { std::vector<double> y = vf::random_vector(n, r), y0 = y; S.project(f, y); orth_check(y0, y, "projection-orthogonal", "after project(f, x) the residual f - A x is not orthogonal to the deflation vectors", true); }
        size_t it; double rs; std::tie(it, rs) = S(f, x);
        double tr = vf::true_relres(A, f, x); long double nAx = nA * vf::norm2(x) / vf::norm2(f);
        // attainable accuracy of recursively updated residuals (Greenbaum 1997): | ||f - A x_k|| - ||r_k|| | <= c k eps ||A|| max_j ||x_j||
        double gap = (double)(64 * (it + 2) * sq * EPS * nAx);
        c.check(std::isfinite(rs) && rs <= 1e-8 && it < 20000, name + ":convergence", "deflated solve did not converge on a model problem", J().n("iters", it).n("resid", rs));
        c.check_le(tr, rs + gap, name + ":truthful", "true relative residual of the original system exceeds the reported one");
        c.check_le(tr, 1e-7, name + ":solves-original-system", "returned vector does not solve the original system");
        vf::obs_max("max_deflated_true_residual", tr); vf::obs_sum("deflated_solves"); vf::obs_max("max_deflated_iterations", (double)it);
        // apply() = precondition, then project
        { std::vector<double> y0(n, 0.0), y(n, 0.0); S.precond().apply(f, y0); S.apply(f, y); orth_check(y0, y, "apply-orthogonal", "apply() is not the preconditioner followed by the projection (residual not orthogonal to Z)", true); }
    } catch (const std::exception &e) { c.fail(name + ":exception", e.what()); }
}
static void sub_deflated() {
    long N = vf::tier(80, 1000);
    for (long idx = 0; idx < N; ++idx) {
        if (!sel("deflated", idx)) continue;
        Rng r(vf::case_seed("deflated", idx)); int nv = 1 + idx % 5, cfg = (idx / 5) % 4;
        vf::Csr<double> A; std::string fam; vf::GridSpec g;
        if (cfg == 3) { int nx = (int)r.range(10, 22), ny = (int)r.range(8, 18); A = vf::convdiff(nx, ny, r.uni(0.2, 2.0), r, r.coin(0.3)); fam = "convdiff"; }
        else { A = vf::model_problem(r, 200, vf::thorough() ? 1500 : 700, &g); fam = "grid"; }
        static const char *cn[] = {"amg+cg", "spai0+cg", "dummy+cg", "spai0+bicgstab"};
        Case c("deflated", idx, J().s("family", fam).n("n", A.n).n("nvec", nv).s("config", cn[cfg]).n("threads", omp_get_max_threads()));
        switch (cfg) {
            case 0: deflated_case<deflated_solver<AMG, solver::cg<SB>>>(c, "deflated", A, nv, r); break;
            case 1: deflated_case<deflated_solver<relaxation::as_preconditioner<SB, relaxation::spai0>, solver::cg<SB>>>(c, "deflated", A, nv, r); break;
            case 2: deflated_case<deflated_solver<preconditioner::dummy<SB>, solver::cg<SB>>>(c, "deflated", A, nv, r); break;
            default: deflated_case<deflated_solver<relaxation::as_preconditioner<SB, relaxation::spai0>, solver::bicgstab<SB>>>(c, "deflated", A, nv, r);
        }
        c.nontrivial(); vf::obs_add("deflation_dims", std::to_string(nv));
        vf::sample("deflated", J().s("family", fam).n("n", A.n).n("nvec", nv).s("config", cn[cfg]));
    }
}

//---------------------------------------------------------------------------
// cpr_drs_rule: the dynamic-row-sum rule itself (cpr_drs.hpp / docs: eps_dd "severity of the violation of diagonal dominance",
// eps_ps "pressure/saturation coupling", weights of [BrCC15]), evaluated densely with absent entries counting as 0:
//   for cell ip (rows ik = ip b .. ik + b - 1, pressure = first unknown), equation i:
//     a_dia = A(ik+i, ik)                                   coupling of equation i to the pressure of its own cell
//     a_off = sum_{cp != ip} |A(ik+i, cp b)|                couplings of equation i to the pressures of the other (active) cells
//     a_top = sum_{cp}       |A(ik,   cp b + i)|            couplings of the pressure equation to unknown i of all (active) cells
//     delta_i = w_i (1 without weights);  for i > 0:  delta_i = 0  if  a_dia < eps_dd a_off  or  a_top < eps_ps |A(ik, ik)|
//   Fpp(ip, ik+i) = delta_i,   App(ip, cp) = sum_i delta_i A(ik+i, cp b).
// A decision whose two sides differ by less than 1e-12 relative (summation order of the library) is not judged.
// The same object is built with 1, 4 and 8 OpenMP threads: weights, pressure matrix and action must be bitwise equal.
//---------------------------------------------------------------------------
static Res gen_reservoir_drs(Rng &r, int b, int nb, int tail, long &lacking) {
    Res R; R.b = b; R.nb = nb; R.N = b * nb; R.n = R.N + tail; int n = R.n; R.A = LD::Zero(n, n); R.bpat.assign((size_t)nb * nb, 0);
    int W = std::max(2, (int)std::sqrt((double)nb)); double pin = r.pick(std::vector<double>{0.35, 0.65, 0.9}), ppos = r.pick(std::vector<double>{0.6, 0.85, 1.0});
    for (int i = 0; i < nb; ++i) for (int j = 0; j < nb; ++j) if (i == j || std::abs(i - j) == 1 || std::abs(i - j) == W || r.coin(1.5 / nb)) R.bpat[(size_t)i * nb + j] = 1;
    lacking = 0;
    for (int i = 0; i < R.N; ++i) for (int j = 0; j < R.N; ++j) { if (i == j || !R.bpat[(size_t)(i / b) * nb + j / b]) continue; bool diagblk = i / b == j / b;
        if (diagblk && j % b == 0) { if (!r.coin(pin)) { ++lacking; continue; } double v = r.uni(0.05, 1.0); R.A(i, j) = r.coin(ppos) ? v : -v; continue; }      // in-cell pressure-column entry of a non-pressure equation
        if (r.coin(diagblk ? 0.3 : 0.45)) continue; R.A(i, j) = r.uni(-1, 1) * (diagblk ? 0.6 : 0.4); }
    for (int i = R.N; i < n; ++i) for (int j = 0; j < n; ++j) if (i != j && r.coin(0.1)) { R.A(i, j) = r.uni(-0.5, 0.5); if (r.coin(0.7)) R.A(j, i) = r.uni(-0.5, 0.5); }
    for (int i = 0; i < n; ++i) { long double s = 0; for (int j = 0; j < n; ++j) if (j != i) s += fabsl(R.A(i, j)); R.A(i, i) = (double)((s + 0.3) * 1.3); }
    return R;
}
static void sub_cpr_drs_rule() {
    long N = vf::tier(64, 800); const int nt0 = omp_get_max_threads();
    typedef preconditioner::cpr_drs<ExactPrec<50>, preconditioner::dummy<SB>> CPR;
    for (long idx = 0; idx < N; ++idx) {
        if (!sel("cpr_drs_rule", idx)) continue;
        Rng r(vf::case_seed("cpr_drs_rule", idx)); int b = 2 + idx % 2 + (idx % 8 == 7), nb = (int)r.range(40, b == 2 ? 96 : 64); int tail = idx % 5 == 4 ? (int)r.range(1, 4) : 0; bool use_w = idx % 3 == 1;
        long lacking = 0; Res R = gen_reservoir_drs(r, b, nb, tail, lacking); Crs C = crs_of(R.A); int n = R.n, active = tail ? R.N : (r.coin(0.3) ? R.N : 0);
        double eps_dd = r.coin(0.15) ? 0.2 : r.logu(0.02, 3.0), eps_ps = r.coin(0.15) ? 0.02 : r.logu(0.005, 1.0);
        std::vector<double> w(R.N); for (auto &x : w) x = r.uni(0.5, 2.0);
        Case c("cpr_drs_rule", idx, J().n("b", b).n("nb", nb).n("tail", tail).n("active_rows", active).n("eps_dd", eps_dd).n("eps_ps", eps_ps).bl("weights", use_w).n("cells_eqs_lacking_own_pressure_entry", lacking).n("threads", nt0));
        // dense reference of the rule
        LD Fref = LD::Zero(nb, n); std::vector<char> judged((size_t)nb * b, 1); long dropped = 0, ambiguous = 0;
        for (int ip = 0; ip < nb; ++ip) { int ik = ip * b; long double dia0 = R.A(ik, ik);
            for (int i = 0; i < b; ++i) { long double delta = use_w ? (long double)w[ik + i] : 1.0L;
                if (i > 0) { long double a_dia = R.A(ik + i, ik), a_off = 0, a_top = 0; for (int cp = 0; cp < nb; ++cp) { if (cp != ip) a_off += fabsl(R.A(ik + i, cp * b)); a_top += fabsl(R.A(ik, cp * b + i)); }
                    long double d1 = a_dia - eps_dd * a_off, s1 = fabsl(a_dia) + eps_dd * a_off, d2 = a_top - eps_ps * fabsl(dia0), s2 = a_top + eps_ps * fabsl(dia0);
                    if ((d1 != 0 && fabsl(d1) <= 1e-12L * s1) || (d2 != 0 && fabsl(d2) <= 1e-12L * s2)) { judged[ik + i] = 0; ++ambiguous; }
                    if (d1 < 0 || d2 < 0) { delta = 0; ++dropped; } }
                Fref(ip, ik + i) = delta; } }
        LD Aref = LD::Zero(nb, nb), Aabs = LD::Zero(nb, nb); for (int ip = 0; ip < nb; ++ip) for (int cp = 0; cp < nb; ++cp) { long double sv = 0, sa = 0; for (int k = 0; k < b; ++k) { sv += Fref(ip, ip * b + k) * R.A(ip * b + k, cp * b); sa += fabsl(Fref(ip, ip * b + k) * R.A(ip * b + k, cp * b)); } Aref(ip, cp) = sv; Aabs(ip, cp) = sa; }
        vf::obs_sum("drs_equations_dropped", (double)dropped); vf::obs_sum("drs_equations_lacking_own_pressure_entry", (double)lacking); vf::obs_sum("drs_decisions_not_judged", (double)ambiguous);
        uint64_t dF[3] = {0, 0, 0}, dA[3] = {0, 0, 0}, dB[3] = {0, 0, 0}; static const int NT[3] = {1, 4, 8};
        for (int t = 0; t < 3; ++t) {
            omp_set_num_threads(NT[t]);
            try {
                CPR::params p; p.block_size = b; p.active_rows = active; p.eps_dd = eps_dd; p.eps_ps = eps_ps; if (use_w) p.weights = w;
                CPR P(std::tie(C.n, C.ptr, C.col, C.val), p); std::shared_ptr<SM> rApp = rec<50>().last;
                { auto &F = *ACC::Fpp(P); size_t used = F.ptr[F.nrows]; vf::Digest d; d.vec(F.ptr, F.nrows + 1); d.vec(F.val, used); d.vec(F.col, used); dF[t] = d.h; }    // only the entries addressed by ptr (with a tail the arrays are longer) { vf::Digest d; size_t ua = rApp->ptr[rApp->nrows]; d.vec(rApp->ptr, rApp->nrows + 1); d.vec(rApp->col, ua); d.vec(rApp->val, ua); dA[t] = d.h; }
                LD B = cpr_action(P, n); dB[t] = dig(B);
                if (t == 0 || NT[t] == nt0) {       // rule oracle at 1 thread and at the job's own thread count
                    LD Fl = dense_of(*ACC::Fpp(P)), Ap = dense_of(*rApp); std::string why;
                    if (!c.check(Fl.rows() == nb && Fl.cols() == n && Ap.rows() == nb && Ap.cols() == nb, "cpr_drs:rule:shapes", "unexpected shapes of Fpp / App")) continue;
                    long bad = 0, first = -1; for (int ip = 0; ip < nb; ++ip) for (int j = 0; j < n; ++j) { bool own = j / b == ip && j < R.N; if (own && !judged[j]) continue; if (Fl(ip, j) != Fref(ip, j)) { if (!bad) first = (long)ip * n + j; ++bad; } }
                    c.check(bad == 0, "cpr_drs:rule:weights", "Fpp differs from the dynamic-row-sum rule (absent entries count as 0)", J().n("entries_differing", bad).n("first_cell", first < 0 ? -1 : first / n).n("first_equation", first < 0 ? -1 : (first % n) % b).n("threads", NT[t]));
                    c.check(app_pattern_ok(*rApp, R, C, why), "cpr_drs:rule:pressure-matrix:pattern", "pressure matrix: " + why);
                    if (!ambiguous) { bool ok = true; for (int i = 0; i < nb; ++i) for (int j = 0; j < nb; ++j) if (!(fabsl(Ap(i, j) - Aref(i, j)) <= (b + 2) * EPS * Aabs(i, j) + 1e-300L)) ok = false;
                        c.check(ok, "cpr_drs:rule:pressure-matrix:value", "pressure matrix is not sum_i delta_i A(ik+i, cp b) with the weights of the rule", J().n("threads", NT[t]));
                        // action with identity global stage: B = I + Sc App^-1 Fpp (I - A); rounding: assembly of App ((b+2) eps |F||A|) through App^-1, plus the apply
                        long double kA = cond_inf(Aref); if (kA < 1e8L) { LD Sc = LD::Zero(n, nb); for (int ip = 0; ip < nb; ++ip) Sc(ip * b, ip) = 1; LD Ari = Aref.partialPivLu().inverse();
                            LD Bref = LD::Identity(n, n) + Sc * Ari * Fref * (LD::Identity(n, n) - R.A); long double Ai = ninf(Ari), base = Ai * ninf(Fref) * (1 + ninf(R.A));
                            long double tol = 4 * (Ai * (b + 2) * EPS * ninf(Aabs) * base + 32 * (n + 1) * EPS * (1 + base) + 8 * nb * EPS * kA * base);
                            c.check_le((double)nmax(B - Bref), (double)tol, "cpr_drs:rule:action", "apply() is not f + Scatter App^-1 Fpp (f - A f) with the weights of the rule"); vf::obs_sum("drs_actions_checked"); } }
                }
            } catch (const std::exception &e) { c.fail("cpr_drs:rule:exception", std::string(e.what()) + " (threads " + std::to_string(NT[t]) + ")"); }
        }
        omp_set_num_threads(nt0);
        c.check(dF[0] == dF[1] && dF[0] == dF[2], "cpr_drs:thread-count:weights", "DRS weights (Fpp) differ between builds with 1, 4 and 8 threads", J().bl("t4_equal", dF[0] == dF[1]).bl("t8_equal", dF[0] == dF[2]));
        c.check(dA[0] == dA[1] && dA[0] == dA[2], "cpr_drs:thread-count:pressure-matrix", "pressure matrix differs between builds with 1, 4 and 8 threads");
        c.check(dB[0] == dB[1] && dB[0] == dB[2], "cpr_drs:thread-count:action", "action differs between builds with 1, 4 and 8 threads");
        if (lacking) c.nontrivial(); vf::obs_add("drs_rule_threads", "1,4,8");
        vf::sample("cpr_drs_rule", J().n("b", b).n("nb", nb).n("eps_dd", eps_dd).n("eps_ps", eps_ps).n("lacking", lacking).n("dropped", dropped));
    }
}

int main(int argc, char **argv) {
    vf::init(argc, argv); STRIDE = vf::opt_int("stride", 1);
    if (vf::sub_enabled("schur_exact")) sub_schur_exact();
    if (vf::sub_enabled("schur_blocks")) sub_schur_blocks();
    if (vf::sub_enabled("schur_preonly")) sub_schur_preonly();
    if (vf::sub_enabled("schur_krylov")) sub_schur_krylov();
    if (vf::sub_enabled("cpr")) sub_cpr();
    if (vf::sub_enabled("cpr_drs")) sub_cpr_drs();
    if (vf::sub_enabled("cpr_active_block")) sub_cpr_active_block();
    if (vf::sub_enabled("deflated")) sub_deflated();
    if (vf::sub_enabled("cpr_drs_rule")) sub_cpr_drs_rule();      // last: it changes the OpenMP thread count (the fork-isolated checks above need a process without a thread pool)
    vf::obs_add("threads_seen", std::to_string(omp_get_max_threads()));
    return vf::finish();
}
