// C19 -- matrix/vector files round-trip exactly; bad files fail cleanly (DESIGN.md 5/C19).
//
// Oracles
//   D  round trips: write with the real writer, read with the real reader, compare bit patterns
//      (structure and values) with what was written; row ranges against slices of the full read;
//      symmetric / foreign files (written by the harness with 17 significant digits, which strtod
//      maps back to the same double) against their dense expansion.
//   F  fault enumeration on small valid files: every truncation point, every byte replaced by each
//      of {0x00,0xFF,'-','9',' ','\n','e','%'} (MatrixMarket), every single-bit flip of header / ptr /
//      col region (binary).  The reader must throw a std::exception or return a result that passes
//      the CRS well-formedness monitor; faults the property says MUST throw are checked for throwing.
//   S  ASan/UBSan/memcheck watch the same reads.  Every faulted read runs in a forked child so that a
//      crash is attributed to the exact fault and the enumeration continues (jobs run with 1 OpenMP
//      thread, so no thread pool exists at fork time).
// operator new is replaced (cap -> std::bad_alloc) so that hostile sizes surface as exceptions.
#include <amgcl/backend/builtin.hpp>
#include <amgcl/adapter/crs_tuple.hpp>
#include <amgcl/value_type/complex.hpp>
#include <amgcl/io/mm.hpp>
#include <amgcl/io/binary.hpp>
#include <amgcl/io/ios_saver.hpp>
#include <vf/hooks.hpp>
#include <vf/gen.hpp>
#include <new>
#include <climits>
#include <cfloat>
#include <fstream>
#include <sstream>
#include <iostream>
#include <unistd.h>
#include <fcntl.h>
#include <dirent.h>
#include <sys/wait.h>
#include <sys/stat.h>
#include <poll.h>
#include <signal.h>
#include <cerrno>

//---------------------------------------------------------------------------
// operator new with a size cap
//---------------------------------------------------------------------------
static const size_t NEW_CAP = size_t(1) << 26;   // 64 MB: far above any legitimate request of this harness
void* operator new(size_t n) { if (n > NEW_CAP) throw std::bad_alloc(); void *p = malloc(n ? n : 1); if (!p) throw std::bad_alloc(); return p; }
void* operator new[](size_t n) { if (n > NEW_CAP) throw std::bad_alloc(); void *p = malloc(n ? n : 1); if (!p) throw std::bad_alloc(); return p; }
void operator delete(void *p) noexcept { free(p); }
void operator delete[](void *p) noexcept { free(p); }
void operator delete(void *p, size_t) noexcept { free(p); }
void operator delete[](void *p, size_t) noexcept { free(p); }

using namespace amgcl;
using vf::J; using vf::Rng; using vf::Case;
typedef std::complex<double> Z; typedef std::complex<float> ZF;

//---------------------------------------------------------------------------
// per-process temp dir
//---------------------------------------------------------------------------
static std::string TMP; static pid_t MAIN_PID = 0;
static int CHILD_TIMEOUT_MS = 10000;   // per faulted read (each takes well under a millisecond); --child-timeout-ms=N
static long STRIDE = 1;   // --stride=k runs every k-th case only (valgrind sample)
static bool sel(const char *sub, long idx) { return (STRIDE <= 1 || idx % STRIDE == 0) && vf::selected(sub, idx); }
static void cleanup_tmp() {
    if (TMP.empty() || getpid() != MAIN_PID) return;
    if (DIR *d = opendir(TMP.c_str())) { while (dirent *e = readdir(d)) { std::string n = e->d_name; if (n != "." && n != "..") unlink((TMP + "/" + n).c_str()); } closedir(d); }
    rmdir(TMP.c_str());
}
static std::string tmpf(const std::string &n) { return TMP + "/" + n; }
static void put_file(const std::string &path, const std::string &content) {
    FILE *f = fopen(path.c_str(), "wb"); if (!f) { fprintf(stderr, "cannot write %s\n", path.c_str()); exit(3); }
    if (!content.empty() && fwrite(content.data(), 1, content.size(), f) != content.size()) { fprintf(stderr, "short write\n"); exit(3); }
    fclose(f);
}
static std::string get_file(const std::string &path) { std::ifstream f(path, std::ios::binary); std::stringstream ss; ss << f.rdbuf(); return ss.str(); }

template <class V> bool same(const std::vector<V> &a, const std::vector<V> &b) { return a.size() == b.size() && (a.empty() || !memcmp(a.data(), b.data(), a.size() * sizeof(V))); }

//---------------------------------------------------------------------------
// value generators: finite values of every kind the property lists
//---------------------------------------------------------------------------
template <class T> T gen_fp(Rng &r) {
    typedef std::numeric_limits<T> L; T v;
    switch (r.range(0, 11)) {
        case 0: v = L::denorm_min() * (T)r.range(1, 1000); break;
        case 1: v = L::max() / (T)r.range(1, 7); break;
        case 2: v = L::max(); break;
        case 3: v = L::min() * (T)r.range(1, 3); break;
        case 4: v = (T)0; break;
        case 5: v = (T)0.1 * (T)r.range(1, 99); break;                  // needs all 17 (9) digits
        case 6: v = std::nextafter((T)1, (T)2) ; break;
        case 7: v = (T)r.range(-1000, 1000); break;
        case 8: v = (T)1 / (T)r.range(3, 97); break;
        default: { if (sizeof(T) == 8) { uint64_t b = r.next(); memcpy(&v, &b, 8); } else { uint32_t b = (uint32_t)r.next(); memcpy(&v, &b, 4); } if (!std::isfinite(v)) v = (T)1 / (T)3; }
    }
    if (r.coin(0.3)) v = -v;        // includes -0.0
    return v;
}
template <class T> struct G;
template <> struct G<double> { static double get(Rng &r) { return gen_fp<double>(r); } static const char* name() { return "double"; } };
template <> struct G<float>  { static float  get(Rng &r) { return gen_fp<float>(r); } static const char* name() { return "float"; } };
template <> struct G<Z>  { static Z  get(Rng &r) { double a = gen_fp<double>(r), b = gen_fp<double>(r); return Z(a, b); } static const char* name() { return "complex<double>"; } };
template <> struct G<ZF> { static ZF get(Rng &r) { float a = gen_fp<float>(r), b = gen_fp<float>(r); return ZF(a, b); } static const char* name() { return "complex<float>"; } };
template <> struct G<int> { static int get(Rng &r) { switch (r.range(0, 5)) { case 0: return INT_MIN; case 1: return INT_MAX; case 2: return 0; case 3: return (int)r.range(-9, 9); default: return (int)(uint32_t)r.next(); } } static const char* name() { return "int"; } };
template <> struct G<long long> { static long long get(Rng &r) { switch (r.range(0, 5)) { case 0: return LLONG_MIN; case 1: return LLONG_MAX; case 2: return 0; case 3: return r.range(-9, 9); default: return (long long)r.next(); } } static const char* name() { return "long long"; } };

template <class V> struct Mat { size_t n, m; std::vector<ptrdiff_t> ptr, col; std::vector<V> val; };
// random pattern; rows sorted (the readers sort rows, so sorted input compares positionally)
template <class V> Mat<V> gen_mat(Rng &r, size_t n, size_t m, double dens) {
    Mat<V> A; A.n = n; A.m = m; A.ptr.push_back(0);
    for (size_t i = 0; i < n; ++i) { for (size_t j = 0; j < m; ++j) if (r.coin(dens)) { A.col.push_back(j); A.val.push_back(G<V>::get(r)); } A.ptr.push_back(A.col.size()); }
    return A;
}
template <class V> Mat<V> shuffled_rows(const Mat<V> &A, Rng &r) {
    Mat<V> B = A;
    for (size_t i = 0; i < A.n; ++i) { std::vector<ptrdiff_t> p(A.ptr[i + 1] - A.ptr[i]); std::iota(p.begin(), p.end(), A.ptr[i]); r.shuffle(p);
        for (size_t k = 0; k < p.size(); ++k) { B.col[A.ptr[i] + k] = A.col[p[k]]; B.val[A.ptr[i] + k] = A.val[p[k]]; } }
    return B;
}
template <class I, class V> bool slice_equal(const Mat<V> &A, ptrdiff_t b, ptrdiff_t e, const std::vector<I> &p, const std::vector<I> &c, const std::vector<V> &v) {
    if (p.size() != (size_t)(e - b + 1) || p[0] != 0) return false;
    for (ptrdiff_t i = b; i < e; ++i) {
        ptrdiff_t w = A.ptr[i + 1] - A.ptr[i]; if ((ptrdiff_t)(p[i - b + 1] - p[i - b]) != w) return false;
        for (ptrdiff_t j = 0; j < w; ++j) { if ((ptrdiff_t)c[p[i - b] + j] != A.col[A.ptr[i] + j]) return false; if (memcmp(&v[p[i - b] + j], &A.val[A.ptr[i] + j], sizeof(V))) return false; }
    }
    return (size_t)p.back() == c.size() && c.size() == v.size();
}
static void ranges_for(size_t n, Rng &r, std::vector<std::pair<ptrdiff_t, ptrdiff_t>> &out) {
    if (n <= 6) { for (size_t b = 0; b <= n; ++b) for (size_t e = b; e <= n; ++e) out.emplace_back(b, e); }
    else { out.emplace_back(0, n); out.emplace_back(0, 0); out.emplace_back(n, n); out.emplace_back(0, 1); out.emplace_back(n - 1, n);
        for (int t = 0; t < 4; ++t) { ptrdiff_t b = r.range(0, n), e = r.range(b, n); out.emplace_back(b, e); } }
}

//---------------------------------------------------------------------------
// MatrixMarket round trips
//---------------------------------------------------------------------------
template <class V, class I> void mm_sparse_rt(Case &c, Rng &r, size_t n, size_t m, double dens, bool unsorted, bool as_tuple) {
    Mat<V> A = gen_mat<V>(r, n, m, dens); Mat<V> W = unsorted ? shuffled_rows(A, r) : A;
    std::string fn = tmpf("rt.mtx"); std::string T = G<V>::name();
    try {
        if (as_tuple) io::mm_write(fn, std::tie(W.n, W.ptr, W.col, W.val));
        else { backend::crs<V, ptrdiff_t, ptrdiff_t> M(W.n, W.m, W.ptr, W.col, W.val); io::mm_write(fn, M); }
        {
            io::mm_reader rd(fn); std::vector<I> p, cc; std::vector<V> v; size_t rows, cols;
            c.check(rd.rows() == n && rd.cols() == m && rd.is_sparse() && !rd.is_symmetric() && rd.is_complex() == (bool)is_complex<V>::value && rd.is_integer() == (bool)std::is_integral<V>::value,
                    "mm_reader:header", "reader meta data differs from what was written (" + T + ")");
            std::tie(rows, cols) = rd(p, cc, v);
            c.check(rows == n && cols == m, "mm_reader:shape", "returned shape differs from the written shape");
            c.check(slice_equal<I, V>(A, 0, n, p, cc, v), "mm_roundtrip:sparse:" + T, "sparse MatrixMarket round trip is not bitwise exact", J().n("n", n).n("m", m).n("nnz", A.col.size()));
        }
        std::vector<std::pair<ptrdiff_t, ptrdiff_t>> rg; ranges_for(n, r, rg);
        bool ok = true; ptrdiff_t fb = -1, fe = -1;
        // the output vectors are REUSED across the row-range reads (dirty with the previous result): a reader must not depend on their prior content
        std::vector<I> p, cc; std::vector<V> v;
        for (auto &be : rg) { io::mm_reader rd(fn); size_t rows, cols; std::tie(rows, cols) = rd(p, cc, v, be.first, be.second);
            if (!(rows == (size_t)(be.second - be.first) && cols == m && slice_equal<I, V>(A, be.first, be.second, p, cc, v))) { if (ok) { fb = be.first; fe = be.second; } ok = false; } vf::obs_sum("row_ranges_read"); }
        c.check(ok, "mm_reader:row-range:" + T, "row range read differs from the slice of the full matrix", J().n("n", n).n("beg", fb).n("end", fe));
    } catch (const std::exception &e) { c.fail("mm_roundtrip:exception", std::string(e.what()) + " (" + T + ")"); }
    if (!A.col.empty()) c.nontrivial();
}
template <class V> void mm_dense_rt(Case &c, Rng &r, size_t n, size_t m) {
    std::vector<V> d(n * m); for (auto &x : d) x = G<V>::get(r); std::string fn = tmpf("rtd.mtx"); std::string T = G<V>::name();
    try {
        if (m == 1 && r.coin()) io::mm_write(fn, d.data(), n); else io::mm_write(fn, d.data(), n, m);
        { io::mm_reader rd(fn); std::vector<V> v; size_t rows, cols; c.check(!rd.is_sparse() && rd.rows() == n && rd.cols() == m, "mm_reader:header", "dense header differs");
          std::tie(rows, cols) = rd(v); c.check(rows == n && cols == m && same(d, v), "mm_roundtrip:dense:" + T, "dense MatrixMarket round trip is not bitwise exact", J().n("n", n).n("m", m)); }
        std::vector<std::pair<ptrdiff_t, ptrdiff_t>> rg; ranges_for(n, r, rg); bool ok = true;
        std::vector<V> v;    // reused across the reads, see above
        for (auto &be : rg) { io::mm_reader rd(fn); size_t rows, cols; std::tie(rows, cols) = rd(v, be.first, be.second);
            std::vector<V> ex(d.begin() + be.first * m, d.begin() + be.second * m); if (!(rows == (size_t)(be.second - be.first) && cols == m && same(ex, v))) ok = false; vf::obs_sum("row_ranges_read"); }
        c.check(ok, "mm_reader:dense-row-range:" + T, "dense row range differs from the slice");
    } catch (const std::exception &e) { c.fail("mm_roundtrip:exception", std::string(e.what()) + " (dense " + T + ")"); }
    c.nontrivial();
}

static void sub_mm_roundtrip() {
    long N = vf::tier(960, 16000);
    for (long idx = 0; idx < N; ++idx) {
        if (!sel("mm_roundtrip", idx)) continue;
        Rng r(vf::case_seed("mm_roundtrip", idx));
        int type = idx % 6; bool i32 = (idx / 6) % 2; bool dense = (idx / 12) % 4 == 3;
        size_t n = r.coin(0.1) ? 1 : r.range(1, idx % 7 == 0 ? 40 : 12), m = r.coin(0.1) ? 1 : r.range(1, idx % 7 == 0 ? 40 : 12);
        double dens = r.pick(std::vector<double>{0.0, 0.15, 0.4, 1.0}); bool unsorted = r.coin(0.3), as_tuple = r.coin(0.25); if (as_tuple) m = n;
        static const char *tn[] = {"double", "float", "complex<double>", "complex<float>", "int", "long long"};
        Case c("mm_roundtrip", idx, J().s("type", tn[type]).bl("idx32", i32).bl("dense", dense).n("n", n).n("m", m).n("dens", dens).bl("unsorted", unsorted).bl("tuple", as_tuple));
#define VF_DISPATCH(V) do { if (dense) mm_dense_rt<V>(c, r, n, m); else if (i32) mm_sparse_rt<V, int>(c, r, n, m, dens, unsorted, as_tuple); else mm_sparse_rt<V, ptrdiff_t>(c, r, n, m, dens, unsorted, as_tuple); } while (0)
        switch (type) { case 0: VF_DISPATCH(double); break; case 1: VF_DISPATCH(float); break; case 2: VF_DISPATCH(Z); break; case 3: VF_DISPATCH(ZF); break; case 4: VF_DISPATCH(int); break; default: VF_DISPATCH(long long); }
#undef VF_DISPATCH
        vf::obs_add("value_types_seen", tn[type]);
        vf::sample("mm_roundtrip", J().s("type", tn[type]).bl("dense", dense).n("n", n).n("m", m).n("dens", dens));
    }
}

//---------------------------------------------------------------------------
// symmetric storage and foreign (hand-formatted) files
//---------------------------------------------------------------------------
static std::string fmt17(double v) { char b[64]; snprintf(b, sizeof b, "%.17g", v); return b; }
static std::string fmt_foreign(double v, Rng &r) {       // equivalent spellings a MatrixMarket producer may use
    char b[64];
    switch (r.range(0, 3)) { case 0: snprintf(b, sizeof b, "%.17g", v); break; case 1: snprintf(b, sizeof b, "%.16E", v); break; case 2: snprintf(b, sizeof b, "%+.17g", v); break; default: snprintf(b, sizeof b, "%.20e", v); }
    return b;
}
static void sub_mm_symmetric() {
    long N = vf::tier(480, 8000);
    for (long idx = 0; idx < N; ++idx) {
        if (!sel("mm_symmetric", idx)) continue;
        Rng r(vf::case_seed("mm_symmetric", idx));
        int kind = idx % 3;             // 0 real, 1 complex, 2 integer
        bool symmetric = (idx / 3) % 4 != 3;      // every 4th file is a general file in foreign formatting
        size_t n = r.range(1, 10), m = symmetric ? n : (size_t)r.range(1, 10); double dens = r.pick(std::vector<double>{0.2, 0.5, 1.0}); bool upper = r.coin(0.3);
        Case c("mm_symmetric", idx, J().s("kind", kind == 0 ? "real" : kind == 1 ? "complex" : "integer").bl("symmetric", symmetric).n("n", n).n("m", m).n("dens", dens).bl("upper", upper));
        // entries of the stored part
        struct E { size_t i, j; double re, im; long long iv; }; std::vector<E> es;
        for (size_t i = 0; i < n; ++i) for (size_t j = 0; j < m; ++j) { if (symmetric && (upper ? j < i : j > i)) continue; if (!r.coin(dens)) continue;
            E e; e.i = i; e.j = j; e.re = gen_fp<double>(r); e.im = gen_fp<double>(r); e.iv = G<int>::get(r); es.push_back(e); }
        std::vector<size_t> ord(es.size()); std::iota(ord.begin(), ord.end(), 0); r.shuffle(ord);
        std::string txt = std::string("%%MatrixMarket matrix coordinate ") + (kind == 0 ? "real" : kind == 1 ? "complex" : "integer") + (symmetric ? " symmetric\n" : " general\n");
        if (r.coin()) txt += "% a comment line\n%another % one\n";
        txt += std::to_string(n) + " " + std::to_string(m) + " " + std::to_string(es.size()) + "\n";
        for (size_t k : ord) { const E &e = es[k]; const char *sep = r.coin(0.2) ? "\t" : (r.coin(0.2) ? "   " : " ");
            txt += (r.coin(0.1) ? "  " : "") + std::to_string(e.i + 1) + sep + std::to_string(e.j + 1) + sep;
            if (kind == 0) txt += fmt_foreign(e.re, r); else if (kind == 1) txt += fmt_foreign(e.re, r) + sep + fmt_foreign(e.im, r); else txt += std::to_string(e.iv);
            txt += "\n"; }
        std::string fn = tmpf("sym.mtx"); put_file(fn, txt);
        // dense expansion
        std::vector<char> has(n * m, 0); std::vector<E> full(n * m);
        for (auto &e : es) { has[e.i * m + e.j] = 1; full[e.i * m + e.j] = e; if (symmetric && e.i != e.j) { has[e.j * m + e.i] = 1; full[e.j * m + e.i] = e; } }
        auto run = [&](auto tag) {
            typedef decltype(tag) V; Mat<V> A; A.n = n; A.m = m; A.ptr.push_back(0);
            for (size_t i = 0; i < n; ++i) { for (size_t j = 0; j < m; ++j) if (has[i * m + j]) { const E &e = full[i * m + j]; A.col.push_back(j);
                    V v; if constexpr (std::is_same<V, double>::value) v = e.re; else if constexpr (std::is_same<V, Z>::value) v = Z(e.re, e.im); else v = (V)e.iv; A.val.push_back(v); } A.ptr.push_back(A.col.size()); }
            try {
                io::mm_reader rd(fn); c.check(rd.is_symmetric() == symmetric && rd.is_sparse() && rd.rows() == n && rd.cols() == m, "mm_reader:header", "header of a hand-written file misread");
                std::vector<ptrdiff_t> p, cc; std::vector<V> v; size_t rows, cols; std::tie(rows, cols) = rd(p, cc, v);
                c.check(rows == n && cols == m && slice_equal<ptrdiff_t, V>(A, 0, n, p, cc, v), symmetric ? "mm_reader:symmetric-expansion" : "mm_reader:foreign-format", "matrix read differs from the dense expansion of the file", J().n("n", n).n("stored", es.size()));
                std::vector<std::pair<ptrdiff_t, ptrdiff_t>> rg; ranges_for(n, r, rg); bool ok = true;
                for (auto &be : rg) { io::mm_reader rd2(fn); std::vector<int> p2, c2; std::vector<V> v2; std::tie(rows, cols) = rd2(p2, c2, v2, be.first, be.second);
                    if (!(rows == (size_t)(be.second - be.first) && cols == m && slice_equal<int, V>(A, be.first, be.second, p2, c2, v2))) ok = false; vf::obs_sum("row_ranges_read"); }
                c.check(ok, symmetric ? "mm_reader:symmetric-row-range" : "mm_reader:row-range:foreign", "row range of a symmetric/foreign file differs from the slice of the expansion");
            } catch (const std::exception &e) { c.fail("mm_symmetric:exception", e.what()); }
        };
        if (kind == 0) run(double()); else if (kind == 1) run(Z()); else run((long long)0);
        if (!es.empty()) c.nontrivial();
        if (symmetric) vf::obs_sum("symmetric_files"); else vf::obs_sum("foreign_files");
        vf::sample("mm_symmetric", J().n("n", n).n("stored", es.size()).bl("symmetric", symmetric).bl("upper", upper));
    }
}

//---------------------------------------------------------------------------
// binary round trips
//---------------------------------------------------------------------------
template <class S, class P, class C, class V> void bin_rt(Case &c, Rng &r, size_t n, size_t m, double dens) {
    Mat<V> A = gen_mat<V>(r, n, m, dens); std::string fn = tmpf("rt.bin"); std::string T = G<V>::name();
    std::vector<P> ptr(A.ptr.begin(), A.ptr.end()); std::vector<C> col(A.col.begin(), A.col.end());
    { std::ofstream f(fn, std::ios::binary); S nn = (S)n; bool ok = io::write(f, nn) && io::write(f, ptr) && (col.empty() || (io::write(f, col) && io::write(f, A.val))); f.close(); if (!ok || !f) { fprintf(stderr, "binary write failed\n"); exit(3); } }
    try {
        c.check((size_t)io::crs_size<S>(fn) == n, "crs_size:value", "crs_size differs from the written size");
        S nn = 0; std::vector<P> p; std::vector<C> cc; std::vector<V> v; io::read_crs(fn, nn, p, cc, v);
        c.check((size_t)nn == n && slice_equal<P, V>(A, 0, n, p, std::vector<P>(cc.begin(), cc.end()), v), "binary_roundtrip:crs:" + T, "binary CRS round trip is not bitwise exact", J().n("n", n).n("nnz", A.col.size()));
        std::vector<std::pair<ptrdiff_t, ptrdiff_t>> rg; ranges_for(n, r, rg); bool ok = true; ptrdiff_t fb = -1, fe = -1;
        std::vector<P> p2; std::vector<C> c2; std::vector<V> v2;   // reused across the reads (dirty with the previous result)
        for (auto &be : rg) { S n2 = 0; io::read_crs(fn, n2, p2, c2, v2, be.first, be.second);
            if (!((size_t)n2 == n && slice_equal<P, V>(A, be.first, be.second, p2, std::vector<P>(c2.begin(), c2.end()), v2))) { if (ok) { fb = be.first; fe = be.second; } ok = false; } vf::obs_sum("row_ranges_read"); }
        c.check(ok, "read_crs:row-range:" + T, "binary row range differs from the slice", J().n("beg", fb).n("end", fe).n("n", n));
    } catch (const std::exception &e) { c.fail("binary_roundtrip:exception", std::string(e.what()) + " (" + T + ")"); }
    // dense
    std::vector<V> d(n * m); for (auto &x : d) x = G<V>::get(r); std::string fd = tmpf("rtd.bin");
    { std::ofstream f(fd, std::ios::binary); S nn = (S)n, mm = (S)m; bool ok = io::write(f, nn) && io::write(f, mm) && io::write(f, d); f.close(); if (!ok || !f) { fprintf(stderr, "binary write failed\n"); exit(3); } }
    try {
        S a = 0, b = 0; io::dense_size(fd, a, b); c.check((size_t)a == n && (size_t)b == m, "dense_size:value", "dense_size differs from the written sizes");
        std::vector<V> v; io::read_dense(fd, a, b, v); c.check((size_t)a == n && (size_t)b == m && same(d, v), "binary_roundtrip:dense:" + T, "binary dense round trip is not bitwise exact");
        std::vector<std::pair<ptrdiff_t, ptrdiff_t>> rg; ranges_for(n, r, rg); bool ok = true;
        for (auto &be : rg) { std::vector<V> v2; io::read_dense(fd, a, b, v2, be.first, be.second); std::vector<V> ex(d.begin() + be.first * m, d.begin() + be.second * m); if (!same(ex, v2)) ok = false; vf::obs_sum("row_ranges_read"); }
        c.check(ok, "read_dense:row-range:" + T, "binary dense row range differs from the slice");
    } catch (const std::exception &e) { c.fail("binary_roundtrip:exception", std::string(e.what()) + " (dense " + T + ")"); }
    c.nontrivial();
}
static void sub_binary_roundtrip() {
    long N = vf::tier(480, 8000);
    for (long idx = 0; idx < N; ++idx) {
        if (!sel("binary_roundtrip", idx)) continue;
        Rng r(vf::case_seed("binary_roundtrip", idx));
        size_t n = r.range(1, idx % 5 == 0 ? 40 : 12), m = r.range(1, 12); double dens = r.pick(std::vector<double>{0.0, 0.2, 0.5, 1.0}); int combo = idx % 5;
        Case c("binary_roundtrip", idx, J().n("combo", combo).n("n", n).n("m", m).n("dens", dens));
        switch (combo) {
            case 0: bin_rt<size_t, ptrdiff_t, ptrdiff_t, double>(c, r, n, m, dens); break;
            case 1: bin_rt<int, int, int, float>(c, r, n, m, dens); break;
            case 2: bin_rt<ptrdiff_t, ptrdiff_t, int, Z>(c, r, n, m, dens); break;
            case 3: bin_rt<size_t, ptrdiff_t, ptrdiff_t, long long>(c, r, n, m, dens); break;
            default: bin_rt<unsigned, long, int, ZF>(c, r, n, m, dens);
        }
        vf::sample("binary_roundtrip", J().n("combo", combo).n("n", n).n("m", m));
    }
}

//---------------------------------------------------------------------------
// isolation of faulted reads in a child process
//---------------------------------------------------------------------------
struct Outcome { int code; char msg[120]; };   // 0 threw std::exception, 1 valid result, 2 invalid result, 3 non-std exception, 4 crashed
static Outcome mk(int code, const std::string &m) { Outcome o; o.code = code; memset(o.msg, 0, sizeof o.msg); strncpy(o.msg, m.c_str(), sizeof(o.msg) - 1); return o; }

template <class F> std::vector<Outcome> isolated(size_t count, F run) {
    std::vector<Outcome> out(count, mk(4, "not run")); size_t start = 0; std::string errf = tmpf("child.err");
    while (start < count) {
        int fd[2]; if (pipe(fd)) { perror("pipe"); exit(3); }
        fflush(stdout); fflush(stderr);
        pid_t pid = fork(); if (pid < 0) { perror("fork"); exit(3); }
        if (pid == 0) {
            close(fd[0]); int e = open(errf.c_str(), O_WRONLY | O_CREAT | O_TRUNC, 0600); if (e >= 0) { dup2(e, 2); close(e); }
            for (size_t k = start; k < count; ++k) { Outcome o = run(k); if (write(fd[1], &o, sizeof o) != (ssize_t)sizeof o) _exit(7); }
            _exit(0);
        }
        close(fd[1]); size_t got = 0; Outcome o; bool hung = false;
        for (;;) { size_t have = 0; ssize_t k = 0;
            while (have < sizeof o) { pollfd pf; pf.fd = fd[0]; pf.events = POLLIN; pf.revents = 0; int pr = poll(&pf, 1, CHILD_TIMEOUT_MS);
                if (pr == 0) { hung = true; kill(pid, SIGKILL); break; }          // a read that does not return (e.g. after heap corruption) counts as a crash
                if (pr < 0) { if (errno == EINTR) continue; perror("poll"); exit(3); }
                k = read(fd[0], (char*)&o + have, sizeof o - have); if (k <= 0) break; have += k; }
            if (have < sizeof o) break; if (start + got < count) out[start + got] = o; ++got; }
        close(fd[0]); int st = 0; waitpid(pid, &st, 0);
        if (start + got >= count) break;
        // the read number start+got killed the child
        std::string info = hung ? "no return within the watchdog (killed)" : WIFSIGNALED(st) ? "signal " + std::to_string(WTERMSIG(st)) : "exit " + std::to_string(WEXITSTATUS(st));
        std::string err = get_file(errf); size_t p = err.find("ERROR: AddressSanitizer: ");
        if (p != std::string::npos) { size_t q = err.find_first_of(" \n", p + 25); info += " asan:" + err.substr(p + 25, q - p - 25); }
        else if ((p = err.find("runtime error: ")) != std::string::npos) info += " ubsan:" + err.substr(p + 15, 60);
        else if ((p = err.find("Assertion")) != std::string::npos) info += " " + err.substr(p, 80);
        size_t q = err.find(" in amgcl::"); if (q != std::string::npos) { size_t e2 = err.find_first_of("<(\n", q + 4); info += " in " + err.substr(q + 4, e2 - q - 4); }
        for (auto &ch : info) if (ch == '\n') ch = ' ';
        out[start + got] = mk(4, info); start += got + 1;
    }
    return out;
}

// CRS well-formedness monitor for reader results
template <class I, class V> std::string crs_wf(size_t rows, size_t cols, const std::vector<I> &p, const std::vector<I> &c, const std::vector<V> &v, bool check_cols) {
    if (p.size() != rows + 1) return "ptr-size"; if (p[0] != 0) return "ptr0";
    for (size_t i = 0; i < rows; ++i) if (p[i + 1] < p[i]) return "ptr-not-monotone";
    if ((size_t)p[rows] != c.size() || c.size() != v.size()) return "size-mismatch";
    if (check_cols) for (auto x : c) if (x < 0 || (size_t)x >= cols) return "col-out-of-range";
    return "";
}

// modes of reading a MatrixMarket file
enum { M_SP_D, M_SP_Z, M_SP_I, M_DN_D, M_DN_Z, M_DN_I };
template <class V> Outcome read_mm_sparse(const std::string &fn, ptrdiff_t rb, ptrdiff_t re) {
    io::mm_reader rd(fn); std::vector<ptrdiff_t> p, c; std::vector<V> v; size_t rows, cols; std::tie(rows, cols) = rd(p, c, v, rb, re);
    std::string w = crs_wf(rows, cols, p, c, v, true); if (w.empty() && rb < 0 && rows != rd.rows()) w = "rows-differ-from-header";
    return w.empty() ? mk(1, "") : mk(2, w);
}
template <class V> Outcome read_mm_dense(const std::string &fn, ptrdiff_t rb, ptrdiff_t re) {
    io::mm_reader rd(fn); std::vector<V> v; size_t rows, cols; std::tie(rows, cols) = rd(v, rb, re);
    return v.size() == rows * cols ? mk(1, "") : mk(2, "dense-size-mismatch");
}
static Outcome read_mm(const std::string &fn, int mode, ptrdiff_t rb = -1, ptrdiff_t re = -1) {
    try {
        switch (mode) {
            case M_SP_D: return read_mm_sparse<double>(fn, rb, re); case M_SP_Z: return read_mm_sparse<Z>(fn, rb, re); case M_SP_I: return read_mm_sparse<long long>(fn, rb, re);
            case M_DN_D: return read_mm_dense<double>(fn, rb, re); case M_DN_Z: return read_mm_dense<Z>(fn, rb, re); default: return read_mm_dense<long long>(fn, rb, re);
        }
    } catch (const std::exception &e) { return mk(0, e.what()); } catch (...) { return mk(3, "non-std exception"); }
}

struct MmBase { std::string name, text; int mode; ptrdiff_t rb, re; size_t banner_len, last_line; };
static MmBase mkbase(const std::string &name, const std::string &text, int mode, ptrdiff_t rb = -1, ptrdiff_t re = -1) {
    MmBase b; b.name = name; b.text = text; b.mode = mode; b.rb = rb; b.re = re; b.banner_len = text.find('\n');
    if (text.empty() || text.back() != '\n') { fprintf(stderr, "base file must end with a newline\n"); exit(3); }
    b.last_line = text.rfind('\n', text.size() - 2) + 1;
    return b;
}
static std::vector<MmBase> mm_bases() {
    std::vector<MmBase> B;
    { size_t n = 4; std::vector<ptrdiff_t> ptr = {0, 2, 5, 8, 10}, col = {0, 1, 0, 1, 2, 1, 2, 3, 2, 3}; std::vector<double> val = {2, -1.5, -1, 2.25, -1, -1, 2, -1e-3, -1, 2e10};
      io::mm_write(tmpf("base.mtx"), std::tie(n, ptr, col, val)); B.push_back(mkbase("written4x4", get_file(tmpf("base.mtx")), M_SP_D)); }
    B.push_back(mkbase("rect3x5", "%%MatrixMarket matrix coordinate real general\n% comment\n%\n3 5 6\n1 1 2.5\n1 5 -1\n2 2 4e0\n3 1 .5\n3 4 -7.25\n3 5 1e-3\n", M_SP_D));
    B.push_back(mkbase("rect3x5-rows1-3", B.back().text, M_SP_D, 1, 3));
    B.push_back(mkbase("complex3x3", "%%MatrixMarket matrix coordinate complex general\n3 3 4\n1 1 1.5 -2\n2 2 3 0.25\n3 1 -1 1\n3 3 2 2\n", M_SP_Z));
    B.push_back(mkbase("integer3x3", "%%MatrixMarket matrix coordinate integer general\n3 3 5\n1 1 4\n1 2 -1\n2 2 4\n3 2 -12\n3 3 7\n", M_SP_I));
    B.push_back(mkbase("symmetric4x4", "%%MatrixMarket matrix coordinate real symmetric\n% lower triangle\n4 4 6\n1 1 2.5\n2 1 -1\n2 2 3\n4 2 -0.5\n3 3 4\n4 4 1.25\n", M_SP_D));
    B.push_back(mkbase("array3x2", "%%MatrixMarket matrix array real general\n3 2\n1.5\n-2\n3e1\n4\n-5.25\n6\n", M_DN_D));
    B.push_back(mkbase("array-complex2x2", "%%MatrixMarket matrix array complex general\n2 2\n1 2\n-3 4\n5 -6\n7.5 8\n", M_DN_Z));
    return B;
}
static const unsigned char REPL[8] = {0x00, 0xFF, '-', '9', ' ', '\n', 'e', '%'};

static void tally(const Outcome &o) { switch (o.code) { case 0: vf::obs_sum("faults_thrown"); break; case 1: vf::obs_sum("faults_valid_result"); break; case 2: vf::obs_sum("faults_invalid_result"); break; case 3: vf::obs_sum("faults_nonstd_exception"); break; default: vf::obs_sum("faults_crashed"); } }
static void judge(Case &c, const std::string &comp, const Outcome &o, bool must_throw, const std::string &must_key, const J &detail) {
    tally(o);
    c.check(o.code != 4, comp + ":crash", std::string("reader crashed on a damaged file: ") + o.msg, detail);
    c.check(o.code != 3, comp + ":non-std-exception", "reader threw something that is not a std::exception", detail);
    c.check(o.code != 2, comp + ":invalid-result:" + o.msg, std::string("reader returned a structurally invalid result without throwing: ") + o.msg, detail);
    if (must_throw) c.check(o.code != 1 && o.code != 2, comp + ":must-throw:" + must_key, "reader accepted a file that the property says must be rejected (" + must_key + ")", detail);
}

static void sub_mm_faults() {
    std::vector<MmBase> B = mm_bases();
    // one seeded file on top of the fixed ones
    { Rng r(vf::case_seed("mm_faults_base", 0)); Mat<double> A = gen_mat<double>(r, 3, 3, 0.6); for (auto &v : A.val) v = (double)r.range(-50, 50) / 8; if (A.col.empty()) { A.col.push_back(0); A.val.push_back(1); for (size_t i = 1; i <= 3; ++i) A.ptr[i] = 1; }
      backend::crs<double, ptrdiff_t, ptrdiff_t> M(A.n, A.m, A.ptr, A.col, A.val); io::mm_write(tmpf("base.mtx"), M); B.push_back(mkbase("seeded3x3", get_file(tmpf("base.mtx")), M_SP_D)); }
    long idx = 0; std::string fn = tmpf("bad.mtx");
    for (auto &b : B) {
        { Outcome o = read_mm(tmpf("none"), b.mode); (void)o; put_file(fn, b.text); Outcome g = read_mm(fn, b.mode, b.rb, b.re); if (g.code != 1) { fprintf(stderr, "base file %s is not read as valid: %s\n", b.name.c_str(), g.msg); exit(3); } }
        const size_t TB = 16, CB = 4;
        for (size_t t0 = 0; t0 < b.text.size(); t0 += TB, ++idx) {
            if (!sel("mm_faults", idx)) continue;
            size_t t1 = std::min(b.text.size(), t0 + TB);
            Case c("mm_faults", idx, J().s("file", b.name).s("fault", "truncate").n("from", t0).n("to", t1));
            auto outs = isolated(t1 - t0, [&](size_t k) { put_file(fn, b.text.substr(0, t0 + k)); return read_mm(fn, b.mode, b.rb, b.re); });
            for (size_t k = 0; k < outs.size(); ++k) { size_t t = t0 + k; judge(c, "mm_reader", outs[k], t <= b.last_line, "truncated-before-last-data-line", J().s("file", b.name).n("truncated_at", t).n("size", b.text.size())); vf::obs_sum("truncation_points"); }
            c.nontrivial();
        }
        for (size_t p0 = 0; p0 < b.text.size(); p0 += CB, ++idx) {
            if (!sel("mm_faults", idx)) continue;
            size_t p1 = std::min(b.text.size(), p0 + CB);
            Case c("mm_faults", idx, J().s("file", b.name).s("fault", "corrupt-byte").n("from", p0).n("to", p1));
            auto outs = isolated((p1 - p0) * 8, [&](size_t k) { size_t pos = p0 + k / 8; unsigned char rp = REPL[k % 8]; if ((unsigned char)b.text[pos] == rp) return mk(1, "same"); std::string x = b.text; x[pos] = (char)rp; put_file(fn, x); return read_mm(fn, b.mode, b.rb, b.re); });
            for (size_t k = 0; k < outs.size(); ++k) { size_t pos = p0 + k / 8; unsigned char rp = REPL[k % 8]; if ((unsigned char)b.text[pos] == rp) continue;
                judge(c, "mm_reader", outs[k], pos < b.banner_len, "corrupt-banner", J().s("file", b.name).n("pos", pos).n("orig", (int)(unsigned char)b.text[pos]).n("repl", (int)rp)); vf::obs_sum("bytes_corrupted"); }
            c.nontrivial();
        }
    }
    vf::obs_set("mm_fault_space", "every truncation point and every byte x {00,FF,'-','9',' ','\\n','e','%'} of 9 small files (real/complex/integer/symmetric coordinate, real/complex array, row-range read)");
}

//---------------------------------------------------------------------------
// binary faults
//---------------------------------------------------------------------------
template <class S, class P, class C, class V> Outcome read_bin(const std::string &fn, ptrdiff_t rb, ptrdiff_t re, bool check_cols, size_t ncols) {
    try {
        S n = 0; std::vector<P> p; std::vector<C> c; std::vector<V> v; io::read_crs(fn, n, p, c, v, rb, re);
        size_t rows = rb < 0 ? (size_t)n : (size_t)(re - rb);
        std::vector<P> cc(c.begin(), c.end()); std::string w = crs_wf(rows, ncols, p, cc, v, check_cols);
        return w.empty() ? mk(1, "") : mk(2, w);
    } catch (const std::exception &e) { return mk(0, e.what()); } catch (...) { return mk(3, "non-std exception"); }
}
template <class S, class V> Outcome read_bin_dense(const std::string &fn, ptrdiff_t rb, ptrdiff_t re) {
    try { S n = 0, m = 0; std::vector<V> v; io::read_dense(fn, n, m, v, rb, re); size_t rows = rb < 0 ? (size_t)n : (size_t)(re - rb); return v.size() == rows * (size_t)m ? mk(1, "") : mk(2, "dense-size-mismatch"); }
    catch (const std::exception &e) { return mk(0, e.what()); } catch (...) { return mk(3, "non-std exception"); }
}
template <class S> Outcome read_size(const std::string &fn) { try { S n = io::crs_size<S>(fn); (void)n; return mk(1, ""); } catch (const std::exception &e) { return mk(0, e.what()); } catch (...) { return mk(3, "non-std exception"); } }

struct BinBase { std::string name, bytes; int kind; size_t hdr, ptr_end, col_end; };   // kind 0: size_t/ptrdiff_t/ptrdiff_t/double, 1: int/int/int/float, 2: dense size_t/double
static Outcome read_bin_any(const BinBase &b, const std::string &fn, int what) {  // what: 0 full, 1 range [1,3), 2 size only
    if (b.kind == 0) return what == 2 ? read_size<size_t>(fn) : read_bin<size_t, ptrdiff_t, ptrdiff_t, double>(fn, what ? 1 : -1, what ? 3 : -1, false, 0);
    if (b.kind == 1) return what == 2 ? read_size<int>(fn) : read_bin<int, int, int, float>(fn, what ? 1 : -1, what ? 3 : -1, false, 0);
    return what == 2 ? read_size<size_t>(fn) : read_bin_dense<size_t, double>(fn, what ? 1 : -1, what ? 3 : -1);
}
static std::vector<BinBase> bin_bases() {
    std::vector<BinBase> B; std::vector<ptrdiff_t> ptr = {0, 2, 5, 8, 10, 12}, col = {0, 1, 0, 1, 2, 1, 2, 3, 2, 3, 0, 4};
    { std::vector<double> val = {2, -1.5, -1, 2.25, -1, -1, 2, -1e-3, -1, 2e10, 3, 4}; size_t n = 5; std::ofstream f(tmpf("base.bin"), std::ios::binary); io::write(f, n); io::write(f, ptr); io::write(f, col); io::write(f, val); f.close();
      BinBase b; b.name = "crs5-i64-double"; b.bytes = get_file(tmpf("base.bin")); b.kind = 0; b.hdr = 8; b.ptr_end = 8 + 6 * 8; b.col_end = b.ptr_end + 12 * 8; B.push_back(b); }
    { std::vector<int> p(ptr.begin(), ptr.end()), c(col.begin(), col.end()); std::vector<float> val = {2, -1.5f, -1, 2.25f, -1, -1, 2, -1e-3f, -1, 2e10f, 3, 4}; int n = 5; std::ofstream f(tmpf("base.bin"), std::ios::binary); io::write(f, n); io::write(f, p); io::write(f, c); io::write(f, val); f.close();
      BinBase b; b.name = "crs5-i32-float"; b.bytes = get_file(tmpf("base.bin")); b.kind = 1; b.hdr = 4; b.ptr_end = 4 + 6 * 4; b.col_end = b.ptr_end + 12 * 4; B.push_back(b); }
    { std::vector<double> d = {1, 2, 3, 4, 5, 6, 7, 8, 9, 10, 11, 12}; size_t n = 4, m = 3; std::ofstream f(tmpf("base.bin"), std::ios::binary); io::write(f, n); io::write(f, m); io::write(f, d); f.close();
      BinBase b; b.name = "dense4x3"; b.bytes = get_file(tmpf("base.bin")); b.kind = 2; b.hdr = 16; b.ptr_end = 16; b.col_end = 16; B.push_back(b); }
    return B;
}
static void sub_bin_faults() {
    std::vector<BinBase> B = bin_bases(); long idx = 0; std::string fn = tmpf("bad.bin");
    for (auto &b : B) {
        put_file(fn, b.bytes); for (int w = 0; w < 3; ++w) { Outcome g = read_bin_any(b, fn, w); if (g.code != 1) { fprintf(stderr, "binary base %s not valid: %s\n", b.name.c_str(), g.msg); exit(3); } }
        const size_t TB = 8, FB = 2;
        for (size_t t0 = 0; t0 < b.bytes.size(); t0 += TB, ++idx) {
            if (!sel("bin_faults", idx)) continue;
            size_t t1 = std::min(b.bytes.size(), t0 + TB);
            Case c("bin_faults", idx, J().s("file", b.name).s("fault", "truncate").n("from", t0).n("to", t1));
            auto outs = isolated((t1 - t0) * 3, [&](size_t k) { put_file(fn, b.bytes.substr(0, t0 + k / 3)); return read_bin_any(b, fn, k % 3); });
            for (size_t k = 0; k < outs.size(); ++k) { size_t t = t0 + k / 3; int w = k % 3;
                // a full read needs every byte of the file; the size query needs the header
                bool must = (w == 0) || (w == 2 && t < (b.kind == 1 ? 4u : 8u));
                judge(c, w == 2 ? "crs_size" : (b.kind == 2 ? "read_dense" : "read_crs"), outs[k], must, "truncated", J().s("file", b.name).n("truncated_at", t).n("size", b.bytes.size()).s("read", w == 0 ? "full" : w == 1 ? "rows[1,3)" : "size")); vf::obs_sum("truncation_points"); }
            c.nontrivial();
        }
        // single-bit flips: header and ptr region (structure must stay valid or the read must throw), col region (must not crash)
        const bool flips = vf::opt_int("bin-flips", 1) != 0;   // memcheck turns a runaway read into minutes of error reports: the vg job leaves the flips to ASan
        for (size_t p0 = 0; p0 < b.col_end; p0 += FB, ++idx) {
            if (!flips || !sel("bin_faults", idx)) continue;
            size_t p1 = std::min(b.col_end, p0 + FB);
            Case c("bin_faults", idx, J().s("file", b.name).s("fault", "bit-flip").n("from", p0).n("to", p1).s("region", p0 < b.hdr ? "header" : p0 < b.ptr_end ? "ptr" : "col"));
            auto outs = isolated((p1 - p0) * 8 * 2, [&](size_t k) { size_t pos = p0 + k / 16; int bit = (k / 2) % 8; std::string x = b.bytes; x[pos] = (char)((unsigned char)x[pos] ^ (1u << bit)); put_file(fn, x); return read_bin_any(b, fn, k % 2); });
            for (size_t k = 0; k < outs.size(); ++k) { size_t pos = p0 + k / 16; int bit = (k / 2) % 8;
                judge(c, b.kind == 2 ? "read_dense" : "read_crs", outs[k], false, "", J().s("file", b.name).n("pos", pos).n("bit", bit).s("region", pos < b.hdr ? "header" : pos < b.ptr_end ? "ptr" : "col").s("read", k % 2 ? "rows[1,3)" : "full")); vf::obs_sum("bits_flipped"); }
            c.nontrivial();
        }
    }
    vf::obs_set("bin_fault_space", "every truncation point (full read, row-range read, size query) and every single-bit flip of header, ptr and col regions of 2 CRS files and the header of 1 dense file");
}

//---------------------------------------------------------------------------
// faults that MUST throw (explicit list)
//---------------------------------------------------------------------------
static void sub_must_throw() {
    struct T { std::string key, text; int mode; ptrdiff_t rb, re; }; std::vector<T> L;
    const std::string R = "%%MatrixMarket matrix coordinate real general\n3 3 3\n1 1 2\n2 2 3\n3 3 4\n";
    const std::string Cx = "%%MatrixMarket matrix coordinate complex general\n2 2 2\n1 1 2 1\n2 2 3 0\n";
    const std::string In = "%%MatrixMarket matrix coordinate integer general\n2 2 2\n1 1 2\n2 2 3\n";
    const std::string DR = "%%MatrixMarket matrix array real general\n2 2\n1\n2\n3\n4\n";
    const std::string DC = "%%MatrixMarket matrix array complex general\n2 1\n1 2\n3 4\n";
    const std::string DI = "%%MatrixMarket matrix array integer general\n2 1\n1\n3\n";
    // wrong value kind
    L.push_back({"wrong-kind:real-file-into-complex", R, M_SP_Z, -1, -1}); L.push_back({"wrong-kind:real-file-into-integer", R, M_SP_I, -1, -1});
    L.push_back({"wrong-kind:complex-file-into-real", Cx, M_SP_D, -1, -1}); L.push_back({"wrong-kind:complex-file-into-integer", Cx, M_SP_I, -1, -1});
    L.push_back({"wrong-kind:integer-file-into-real", In, M_SP_D, -1, -1}); L.push_back({"wrong-kind:integer-file-into-complex", In, M_SP_Z, -1, -1});
    L.push_back({"wrong-kind:real-array-into-complex", DR, M_DN_Z, -1, -1}); L.push_back({"wrong-kind:real-array-into-integer", DR, M_DN_I, -1, -1});
    L.push_back({"wrong-kind:complex-array-into-real", DC, M_DN_D, -1, -1}); L.push_back({"wrong-kind:complex-array-into-integer", DC, M_DN_I, -1, -1});
    L.push_back({"wrong-kind:integer-array-into-real", DI, M_DN_D, -1, -1}); L.push_back({"wrong-kind:integer-array-into-complex", DI, M_DN_Z, -1, -1});
    L.push_back({"wrong-kind:coordinate-file-read-as-array", R, M_DN_D, -1, -1}); L.push_back({"wrong-kind:array-file-read-as-coordinate", DR, M_SP_D, -1, -1});
    // header sizes inconsistent with the data
    L.push_back({"inconsistent-sizes:nnz-larger-than-data", "%%MatrixMarket matrix coordinate real general\n3 3 4\n1 1 2\n2 2 3\n3 3 4\n", M_SP_D, -1, -1});
    L.push_back({"inconsistent-sizes:array-shorter-than-header", "%%MatrixMarket matrix array real general\n3 2\n1\n2\n3\n4\n5\n", M_DN_D, -1, -1});
    L.push_back({"inconsistent-sizes:column-index-above-ncols", "%%MatrixMarket matrix coordinate real general\n3 3 3\n1 1 2\n2 4 3\n3 3 4\n", M_SP_D, -1, -1});
    L.push_back({"inconsistent-sizes:column-index-zero", "%%MatrixMarket matrix coordinate real general\n3 3 3\n1 1 2\n2 0 3\n3 3 4\n", M_SP_D, -1, -1});
    L.push_back({"inconsistent-sizes:row-index-above-nrows", "%%MatrixMarket matrix coordinate real general\n3 3 3\n1 1 2\n4 2 3\n3 3 4\n", M_SP_D, -1, -1});
    L.push_back({"inconsistent-sizes:row-index-zero", "%%MatrixMarket matrix coordinate real general\n3 3 3\n1 1 2\n0 2 3\n3 3 4\n", M_SP_D, -1, -1});
    L.push_back({"inconsistent-sizes:symmetric-column-index-above-size", "%%MatrixMarket matrix coordinate real symmetric\n3 3 2\n1 1 2\n2 5 3\n", M_SP_D, -1, -1});
    L.push_back({"inconsistent-sizes:size-line-has-two-numbers", "%%MatrixMarket matrix coordinate real general\n3 3\n1 1 2\n2 2 3\n3 3 4\n", M_SP_D, -1, -1});
    // corrupted header
    L.push_back({"corrupt-header:no-banner", "3 3 3\n1 1 2\n2 2 3\n3 3 4\n", M_SP_D, -1, -1});
    L.push_back({"corrupt-header:single-percent", "%MatrixMarket matrix coordinate real general\n3 3 3\n1 1 2\n2 2 3\n3 3 4\n", M_SP_D, -1, -1});
    L.push_back({"corrupt-header:not-a-matrix", "%%MatrixMarket vector coordinate real general\n3 3 3\n1 1 2\n2 2 3\n3 3 4\n", M_SP_D, -1, -1});
    L.push_back({"corrupt-header:unknown-format", "%%MatrixMarket matrix elemental real general\n3 3 3\n1 1 2\n2 2 3\n3 3 4\n", M_SP_D, -1, -1});
    L.push_back({"corrupt-header:unknown-field", "%%MatrixMarket matrix coordinate double general\n3 3 3\n1 1 2\n2 2 3\n3 3 4\n", M_SP_D, -1, -1});
    L.push_back({"corrupt-header:unknown-symmetry", "%%MatrixMarket matrix coordinate real diagonal\n3 3 3\n1 1 2\n2 2 3\n3 3 4\n", M_SP_D, -1, -1});
    L.push_back({"corrupt-header:missing-symmetry", "%%MatrixMarket matrix coordinate real\n3 3 3\n1 1 2\n2 2 3\n3 3 4\n", M_SP_D, -1, -1});
    L.push_back({"corrupt-header:empty-file", "", M_SP_D, -1, -1});
    L.push_back({"corrupt-header:banner-only", "%%MatrixMarket matrix coordinate real general\n", M_SP_D, -1, -1});
    L.push_back({"corrupt-header:non-numeric-sizes", "%%MatrixMarket matrix coordinate real general\nx y z\n1 1 2\n", M_SP_D, -1, -1});
    // damaged data lines
    L.push_back({"corrupt-data:missing-value", "%%MatrixMarket matrix coordinate real general\n3 3 3\n1 1 2\n2 2\n3 3 4\n", M_SP_D, -1, -1});
    L.push_back({"corrupt-data:non-numeric-value", "%%MatrixMarket matrix coordinate real general\n3 3 3\n1 1 2\n2 2 abc\n3 3 4\n", M_SP_D, -1, -1});
    L.push_back({"corrupt-data:non-numeric-index", "%%MatrixMarket matrix coordinate real general\n3 3 3\n1 1 2\nx 2 3\n3 3 4\n", M_SP_D, -1, -1});
    L.push_back({"corrupt-data:complex-value-lacks-imaginary-part", "%%MatrixMarket matrix coordinate complex general\n2 2 2\n1 1 2 1\n2 2 3\n", M_SP_Z, -1, -1});
    L.push_back({"corrupt-data:array-non-numeric", "%%MatrixMarket matrix array real general\n2 1\n1\nfoo\n", M_DN_D, -1, -1});
    // row subsets outside the file
    L.push_back({"bad-subset:row-end-above-nrows", R, M_SP_D, 0, 4}); L.push_back({"bad-subset:array-row-end-above-nrows", DR, M_DN_D, 1, 3});
    long idx = 0; std::string fn = tmpf("must.mtx");
    for (auto &t : L) { long my = idx++;
        if (!sel("must_throw", my)) continue;
        Case c("must_throw", my, J().s("reader", "mm_reader").s("fault", t.key));
        auto outs = isolated(1, [&](size_t) { put_file(fn, t.text); return read_mm(fn, t.mode, t.rb, t.re); });
        std::string cls = t.key.substr(0, t.key.find(':'));
        judge(c, "mm_reader", outs[0], true, t.key, J().s("fault", t.key)); c.nontrivial(); vf::obs_sum("must_throw_cases");
    }
    // missing files and binary counterparts
    struct Bn { std::string key; int what; };   // what: 0 missing file crs, 1 missing dense, 2 empty crs, 3 range above n, 4 dense range above n, 5 crs_size on missing, 6 mm missing
    std::vector<Bn> BL = {{"missing-file:read_crs", 0}, {"missing-file:read_dense", 1}, {"empty-file:read_crs", 2}, {"bad-subset:read_crs-row-end-above-n", 3}, {"bad-subset:read_dense-row-end-above-n", 4}, {"missing-file:crs_size", 5}, {"missing-file:mm_reader", 6}};
    std::vector<BinBase> BB = bin_bases();
    for (auto &b : BL) { long my = idx++;
        if (!sel("must_throw", my)) continue;
        Case c("must_throw", my, J().s("reader", "binary").s("fault", b.key));
        auto outs = isolated(1, [&](size_t) -> Outcome { std::string f = tmpf("mustb.bin");
            switch (b.what) {
                case 0: return read_bin<size_t, ptrdiff_t, ptrdiff_t, double>(tmpf("does-not-exist"), -1, -1, false, 0);
                case 1: return read_bin_dense<size_t, double>(tmpf("does-not-exist"), -1, -1);
                case 2: put_file(f, ""); return read_bin<size_t, ptrdiff_t, ptrdiff_t, double>(f, -1, -1, false, 0);
                case 3: put_file(f, BB[0].bytes); return read_bin<size_t, ptrdiff_t, ptrdiff_t, double>(f, 0, 6, false, 0);
                case 4: put_file(f, BB[2].bytes); return read_bin_dense<size_t, double>(f, 0, 5);
                case 5: return read_size<size_t>(tmpf("does-not-exist"));
                default: return read_mm(tmpf("does-not-exist"), M_SP_D);
            } });
        judge(c, b.what == 6 ? "mm_reader" : "binary", outs[0], true, b.key, J().s("fault", b.key)); c.nontrivial(); vf::obs_sum("must_throw_cases");
    }
    // ios_saver restores the stream state it captured
    { long my = idx++; if (sel("must_throw", my)) { Case c("must_throw", my, J().s("reader", "ios_saver").s("fault", "none"));
        std::ostringstream os; os << std::hex << std::setprecision(3); auto f0 = os.flags(); auto p0 = os.precision();
        { ios_saver s(os); os << std::scientific << std::setprecision(17) << std::dec; }
        c.check(os.flags() == f0 && os.precision() == p0, "ios_saver:restore", "ios_saver did not restore the stream flags / precision"); c.nontrivial(); } }
}

int main(int argc, char **argv) {
    vf::init(argc, argv);
    MAIN_PID = getpid(); STRIDE = vf::opt_int("stride", 1); CHILD_TIMEOUT_MS = (int)vf::opt_int("child-timeout-ms", 10000);
    { char tmpl[] = "/tmp/c19-io-XXXXXX"; char *d = mkdtemp(tmpl); if (!d) { perror("mkdtemp"); return 3; } TMP = d; atexit(cleanup_tmp); }
    if (vf::sub_enabled("mm_roundtrip")) sub_mm_roundtrip();
    if (vf::sub_enabled("mm_symmetric")) sub_mm_symmetric();
    if (vf::sub_enabled("binary_roundtrip")) sub_binary_roundtrip();
    if (vf::sub_enabled("mm_faults")) sub_mm_faults();
    if (vf::sub_enabled("bin_faults")) sub_bin_faults();
    if (vf::sub_enabled("must_throw")) sub_must_throw();
    return vf::finish();
}
