// C20 -- the C interface (0- and 1-based) gives the C++ results (DESIGN.md 5/C20).
// lib/amgcl.cpp is compiled into this binary (see framework/props/c20.py).  Oracles:
//   D  differential, bitwise: every result obtained through the C handles (amgcl.h) equals the result of
//      the equivalent C++ run-time classes fed the same property-tree operations, and the Fortran-style
//      (_f, 1-based) entry points equal the 0-based ones;
//   D' typed twin: for three fixed compositions the C API result equals a COMPILE-TIME composed solver whose
//      params struct is filled field by field with the values handed to the typed setters / written to the
//      JSON file (values exactly representable, so "reaches the solver unchanged" is unambiguous);
//   R  behaviour: maxiter = k with an unreachable tolerance stops after exactly k iterations;
//   S  ASan/UBSan/LSan: all arrays handed to the C API live in exact-size heap blocks; every create is paired
//      with a destroy (also after failing creates) and the process must end leak-free.
#include <amgcl.h>
#include <amgcl/backend/builtin.hpp>
#include <amgcl/adapter/crs_tuple.hpp>
#include <amgcl/amg.hpp>
#include <amgcl/make_solver.hpp>
#include <amgcl/solver/runtime.hpp>
#include <amgcl/coarsening/runtime.hpp>
#include <amgcl/relaxation/runtime.hpp>
#include <amgcl/coarsening/smoothed_aggregation.hpp>
#include <amgcl/coarsening/ruge_stuben.hpp>
#include <amgcl/coarsening/aggregation.hpp>
#include <boost/property_tree/json_parser.hpp>
#include <vf/hooks.hpp>
#include <vf/gen.hpp>
#include <memory>
#include <fstream>
#include <cstring>
#include <unistd.h>

typedef amgcl::backend::builtin<double> B;
typedef boost::property_tree::ptree ptree;
typedef amgcl::amg<B, amgcl::runtime::coarsening::wrapper, amgcl::runtime::relaxation::wrapper> AMG;
typedef amgcl::make_solver<AMG, amgcl::runtime::solver::wrapper<B>> Solver;
using vf::Csr; using vf::J; using vf::Rng; using vf::Case;

static const char *const COARSENINGS[] = {"aggregation", "smoothed_aggregation", "smoothed_aggr_emin", "ruge_stuben"};
static const char *const RELAXATIONS[] = {"damped_jacobi", "gauss_seidel", "spai0", "spai1", "chebyshev", "ilu0", "iluk", "ilup", "ilut"};
static const char *const SOLVERS[] = {"cg", "bicgstab", "bicgstabl", "gmres", "lgmres", "fgmres", "idrs", "richardson", "preonly"};

//--- exact-size heap copies of a system (ASan red zones directly behind every array) ---------------
struct CArrays {
    int n = 0, nnz = 0; std::unique_ptr<int[]> ptr, col; std::unique_ptr<double[]> val;
    CArrays(const Csr<double> &A, int base) : n((int)A.n), nnz((int)A.nnz()), ptr(new int[A.n + 1]), col(new int[A.nnz()]), val(new double[A.nnz()]) {
        for (size_t i = 0; i <= A.n; ++i) ptr[i] = (int)A.ptr[i] + base;
        for (size_t k = 0; k < A.nnz(); ++k) { col[k] = (int)A.col[k] + base; val[k] = A.val[k]; }
    }
};
struct CVec { size_t n; std::unique_ptr<double[]> p; explicit CVec(const std::vector<double> &v) : n(v.size()), p(new double[v.size()]) { std::copy(v.begin(), v.end(), p.get()); }
    bool same(const std::vector<double> &v) const { return v.size() == n && (n == 0 || !memcmp(v.data(), p.get(), n * sizeof(double))); }
    bool same(const CVec &o) const { return o.n == n && (n == 0 || !memcmp(o.p.get(), p.get(), n * sizeof(double))); } };

//--- parameter operations: the same list is played on the C handle and on a ptree -----------------------
struct Op { char kind; std::string name; int iv = 0; float fv = 0; std::string sv; };
struct Prm {
    std::vector<Op> ops; std::string json;       // json: text of a file read before the setters are applied ("" = none)
    std::vector<Op> pre_ops;                     // setters played BEFORE the file is read (history: set, read_json, set)
    void seti(const std::string &k, int v) { Op o; o.kind = 'i'; o.name = k; o.iv = v; ops.push_back(o); }
    void setf(const std::string &k, float v) { Op o; o.kind = 'f'; o.name = k; o.fv = v; ops.push_back(o); }
    void sets(const std::string &k, const std::string &v) { Op o; o.kind = 's'; o.name = k; o.sv = v; ops.push_back(o); }
    std::string show() const { std::string s = json.empty() ? "" : "json:" + json + " "; if (!pre_ops.empty()) s += "[" + std::to_string(pre_ops.size()) + " setters before the file] "; for (auto &o : ops) { s += o.name + "="; if (o.kind == 'i') s += std::to_string(o.iv); else if (o.kind == 'f') { char b[40]; snprintf(b, sizeof b, "%.9gf", o.fv); s += b; } else s += "'" + o.sv + "'"; s += " "; } return s; }
};
static std::string tmp_json_path(long idx) { const char *d = getenv("VERIF_TMP"); std::string p = (d ? d : "/tmp"); return p + "/vf-c20-" + std::to_string((long)getpid()) + "-" + std::to_string(idx) + ".json"; }
struct JsonFile { std::string path; JsonFile(const std::string &text, long idx) { if (text.empty()) return; path = tmp_json_path(idx); std::ofstream f(path); f << text; if (!f) { fprintf(stderr, "c20: cannot write %s\n", path.c_str()); exit(3); } }
    ~JsonFile() { if (!path.empty()) unlink(path.c_str()); } };

static amgclHandle c_params(const Prm &p, const std::string &jsonpath) {
    amgclHandle h = amgcl_params_create();
    for (auto &o : p.pre_ops) { if (o.kind == 'i') amgcl_params_seti(h, o.name.c_str(), o.iv); else if (o.kind == 'f') amgcl_params_setf(h, o.name.c_str(), o.fv); else amgcl_params_sets(h, o.name.c_str(), o.sv.c_str()); }
    if (!jsonpath.empty()) amgcl_params_read_json(h, jsonpath.c_str());
    for (auto &o : p.ops) { if (o.kind == 'i') amgcl_params_seti(h, o.name.c_str(), o.iv); else if (o.kind == 'f') amgcl_params_setf(h, o.name.c_str(), o.fv); else amgcl_params_sets(h, o.name.c_str(), o.sv.c_str()); }
    return h;
}
static ptree cpp_params(const Prm &p, const std::string &jsonpath) {
    ptree t;
    for (auto &o : p.pre_ops) { if (o.kind == 'i') t.put(o.name, o.iv); else if (o.kind == 'f') t.put(o.name, o.fv); else t.put(o.name, o.sv.c_str()); }
    if (!jsonpath.empty()) boost::property_tree::read_json(jsonpath, t);   // the same call the C entry point documents: the file's tree becomes the parameter tree
    for (auto &o : p.ops) { if (o.kind == 'i') t.put(o.name, o.iv); else if (o.kind == 'f') t.put(o.name, o.fv); else t.put(o.name, o.sv.c_str()); }
    return t;
}

//--- random parameter sets expressible through the C API -----------------------------------------------
// pre: "" for amgcl_precond_create, "precond." for amgcl_solver_create
static void random_amg_params(Prm &p, const std::string &pre, Rng &r, size_t n, int ci, int ri) {
    p.sets(pre + "coarsening.type", COARSENINGS[ci]); p.sets(pre + "relax.type", RELAXATIONS[ri]);
    p.seti(pre + "coarse_enough", (int)r.range(8, (long)std::max<size_t>(9, n / 3)));
    if (r.coin()) p.seti(pre + "npre", (int)r.range(0, 3));
    if (r.coin()) p.seti(pre + "npost", (int)r.range(0, 3));
    if (r.coin(0.3)) p.seti(pre + "ncycle", (int)r.range(1, 2));
    if (r.coin(0.3)) p.seti(pre + "pre_cycles", (int)r.range(1, 2));
    if (r.coin(0.3)) p.seti(pre + "max_levels", (int)r.range(1, 5));
    if (r.coin(0.3)) p.seti(pre + "direct_coarse", (int)r.range(0, 1));
    if (r.coin(0.2)) p.sets(pre + "allow_rebuild", r.coin() ? "true" : "false");
    std::string c = pre + "coarsening.";
    if (ci != 3) { if (r.coin()) p.setf(c + "aggr.eps_strong", (float)r.uni(0.02, 0.2)); }
    if (ci == 0 && r.coin()) p.setf(c + "over_interp", (float)r.uni(1.0, 2.0));
    if (ci == 1) { if (r.coin()) p.setf(c + "relax", (float)r.uni(0.5, 1.4)); if (r.coin(0.3)) { p.seti(c + "estimate_spectral_radius", 1); p.seti(c + "power_iters", (int)r.range(0, 4)); } }
    if (ci == 3) { if (r.coin()) p.setf(c + "eps_strong", (float)r.uni(0.1, 0.5)); if (r.coin()) p.seti(c + "do_trunc", (int)r.range(0, 1)); if (r.coin()) p.setf(c + "eps_trunc", (float)r.uni(0.05, 0.4)); }
    std::string x = pre + "relax.";
    switch (ri) {
        case 0: if (r.coin(0.7)) p.setf(x + "damping", (float)r.uni(0.4, 0.95)); break;
        case 1: if (r.coin()) p.seti(x + "serial", (int)r.range(0, 1)); break;
        case 4: if (r.coin()) p.seti(x + "degree", (int)r.range(1, 6)); if (r.coin()) p.setf(x + "lower", (float)r.uni(0.02, 0.3)); if (r.coin(0.3)) p.seti(x + "power_iters", (int)r.range(0, 5)); if (r.coin(0.3)) p.sets(x + "scale", "true"); break;
        case 5: if (r.coin()) p.setf(x + "damping", (float)r.uni(0.5, 1.0)); if (r.coin()) p.seti(x + "solve.serial", (int)r.range(0, 1)); break;
        case 6: p.seti(x + "k", (int)r.range(0, 3)); if (r.coin()) p.setf(x + "damping", (float)r.uni(0.5, 1.0)); break;
        case 7: p.seti(x + "k", (int)r.range(0, 2)); if (r.coin()) p.seti(x + "solve.serial", (int)r.range(0, 1)); break;
        case 8: if (r.coin()) p.setf(x + "p", (float)r.uni(1.0, 4.0)); if (r.coin()) p.setf(x + "tau", (float)r.logu(1e-3, 1e-1)); break;
        default: break;
    }
}
static void random_solver_params(Prm &p, Rng &r, int si) {
    std::string s = "solver."; p.sets(s + "type", SOLVERS[si]);
    if (si == 8) return;
    p.seti(s + "maxiter", (int)r.range(1, 40));
    if (r.coin(0.8)) { if (r.coin(0.7)) p.setf(s + "tol", (float)r.logu(1e-10, 1e-2)); else p.sets(s + "tol", r.coin() ? "1e-8" : "2.5e-5"); }
    if (r.coin(0.2)) p.setf(s + "abstol", (float)r.logu(1e-14, 1e-6));
    if (r.coin(0.3)) p.seti(s + "ns_search", (int)r.range(0, 1));
    if ((si == 1 || si == 2 || si == 3 || si == 4) && r.coin()) p.sets(s + "pside", r.coin() ? "left" : "right");
    if (si == 1 && r.coin()) p.seti(s + "check_after", 1);
    if (si == 2) { if (r.coin()) p.seti(s + "L", (int)r.range(1, 4)); if (r.coin(0.3)) p.setf(s + "delta", (float)r.uni(0, 0.1)); if (r.coin(0.3)) p.seti(s + "convex", 0); }
    if (si == 3 || si == 5) { if (r.coin()) p.seti(s + "M", (int)r.range(2, 25)); }
    if (si == 4) { if (r.coin()) p.seti(s + "M", (int)r.range(3, 20)); if (r.coin()) p.seti(s + "K", (int)r.range(1, 4)); if (r.coin(0.3)) p.seti(s + "always_reset", 0); }
    if (si == 6) { if (r.coin()) p.seti(s + "s", (int)r.range(1, 6)); if (r.coin()) p.setf(s + "omega", (float)r.uni(0.5, 0.9)); if (r.coin(0.3)) p.seti(s + "smoothing", 1); if (r.coin(0.3)) p.seti(s + "replacement", 1); }
    if (si == 7 && r.coin()) p.setf(s + "damping", (float)r.uni(0.5, 1.0));
}
// History on one handle: a component type is first set to some OTHER valid name, the options follow, and the type is finally set
// to the wanted name.  put() semantics: the last value wins and the options set in between survive.  (added after seeded changes
// made the setters append instead of overwrite, resp. wipe the sibling options when a type key is switched)
static void retype(Prm &p, Rng &r) {
    std::vector<size_t> idx; for (size_t i = 0; i < p.ops.size(); ++i) { const std::string &nm = p.ops[i].name; if (p.ops[i].kind == 's' && nm.size() >= 4 && nm.compare(nm.size() - 4, 4, "type") == 0) idx.push_back(i); }
    if (idx.empty()) return; size_t k = idx[r.next() % idx.size()]; Op real = p.ops[k]; Op other = real;
    auto pick = [&](const char *const *list, int n) { for (int t = 0; t < 20; ++t) { std::string c = list[r.next() % n]; if (c != real.sv) return c; } return real.sv; };
    if (real.name.find("coarsening.type") != std::string::npos) other.sv = pick(COARSENINGS, 4);
    else if (real.name.find("relax.type") != std::string::npos) other.sv = pick(RELAXATIONS, 9);
    else if (real.name.find("solver.type") != std::string::npos) other.sv = pick(SOLVERS, 8);     // (preonly, index 8, is not used as the decoy)
    else return;
    if (other.sv == real.sv) return;
    p.ops.erase(p.ops.begin() + k); p.ops.insert(p.ops.begin(), other); p.ops.push_back(real); vf::obs_sum("retype_histories");
}
// Move a random subset of the operations into a JSON document (nested objects); the rest stays with the setters.
struct JNode { std::map<std::string, JNode> kids; std::string leaf; bool is_leaf = false; };
static void jput(JNode &root, const std::string &path, const std::string &text) { JNode *n = &root; size_t b = 0; while (true) { size_t d = path.find('.', b); std::string k = path.substr(b, d == std::string::npos ? d : d - b); n = &n->kids[k]; if (d == std::string::npos) break; b = d + 1; } n->is_leaf = true; n->leaf = text; }
static std::string jdump(const JNode &n, int ind = 0) { if (n.is_leaf) return n.leaf; std::string s = "{\n"; size_t k = 0; for (auto &kv : n.kids) { s += std::string(ind + 2, ' ') + "\"" + kv.first + "\": " + jdump(kv.second, ind + 2) + (++k < n.kids.size() ? ",\n" : "\n"); } return s + std::string(ind, ' ') + "}"; }
static void split_to_json(Prm &p, Rng &r) {
    JNode root; std::vector<Op> keep; bool any = false; bool with_pre = r.coin(0.4);
    for (auto &o : p.ops) {
        if (!r.coin(0.5)) { keep.push_back(o); continue; }
        any = true; char b[64];
        // history "setter on a section, then read_json containing that section": the earlier value (a different one) must not survive
        if (with_pre && r.coin(0.6)) { Op q = o; if (q.kind == 'i') q.iv = o.iv + 3; else if (q.kind == 'f') q.fv = o.fv * 0.5f; p.pre_ops.push_back(q); }
        if (o.kind == 'i') { snprintf(b, sizeof b, "%d", o.iv); jput(root, o.name, b); }
        else if (o.kind == 'f') { snprintf(b, sizeof b, "%.9g", o.fv); jput(root, o.name, b); }      // shortest text that identifies the float
        else if (o.sv == "true" || o.sv == "false") jput(root, o.name, o.sv);                       // JSON boolean
        else jput(root, o.name, "\"" + o.sv + "\"");
    }
    if (!any) { p.pre_ops.clear(); return; }
    p.json = jdump(root); p.ops = keep;
    if (r.coin(0.3) && !keep.empty()) { Op o = keep[r.next() % keep.size()]; if (o.kind == 'i') { jput(root, o.name, std::to_string(o.iv + 7)); p.json = jdump(root); } }   // a setter overrides the file value
}

static Csr<double> gen_sorted_system(Rng &r, std::string &fam, bool big) {
    int k = (int)r.range(0, 2);
    if (k == 0) { vf::GridSpec g; Csr<double> A = vf::model_problem(r, big ? 300 : 80, big ? 900 : 300, &g); fam = g.nz > 1 ? "grid7" : (g.nine ? "grid9" : "grid5"); return A; }
    if (k == 1) { fam = "convdiff"; return vf::convdiff((int)r.range(8, big ? 26 : 16), (int)r.range(8, big ? 26 : 16), r.logu(0.1, 5), r, false); }
    vf::GridSpec g; g.nx = (int)r.range(6, big ? 24 : 14); g.ny = (int)r.range(6, big ? 24 : 14); g.shift = r.uni(0.01, 0.5); g.contrast = r.logu(1, 8); fam = "grid5_shift"; return vf::grid_diffusion(g, r);
}
// Valid CRS input does not have to store the columns of a row in ascending order: 40% of the systems are handed over with the
// entries of every row randomly permuted (or reversed).  All entry points -- 0-based, 1-based, C++ -- get the same arrays.
static Csr<double> gen_system(Rng &r, std::string &fam, bool big) {
    Csr<double> A = gen_sorted_system(r, fam, big);
    // explicitly stored zeros (valid CRS: e.g. a 5-point operator kept on a 9-point pattern): extra off-diagonal entries with value 0
    // are inserted into every row; all entry points and the C++ twin must see the same pattern
    if (r.coin(0.3)) { Csr<double> Z(A.n, A.m); for (size_t i = 0; i < A.n; ++i) { std::vector<std::pair<ptrdiff_t, double>> row; for (auto j = A.ptr[i]; j < A.ptr[i + 1]; ++j) row.emplace_back(A.col[j], A.val[j]);
            for (int t = 0; t < 2; ++t) { ptrdiff_t cnew = (ptrdiff_t)(r.next() % A.m); bool have = false; for (auto &e : row) if (e.first == cnew) have = true; if (!have) row.emplace_back(cnew, 0.0); }
            std::sort(row.begin(), row.end()); for (auto &e : row) Z.push(e.first, e.second); Z.end_row(); }
        A = Z; fam += "/stored-zeros"; vf::obs_sum("stored_zero_systems"); }
    if (r.coin(0.4)) { bool rev = r.coin(0.3); A = vf::shuffle_rows(A, r, rev); fam += rev ? "/rows-reversed" : "/rows-shuffled"; vf::obs_sum("unsorted_row_systems"); }
    return A;
}
// replacement matrix for solve_mtx: same size; either perturbed values on the same pattern or another generator
static Csr<double> replacement(const Csr<double> &A, Rng &r) { Csr<double> A2 = A; for (auto &v : A2.val) v *= (1.0 + 0.02 * r.uni()); for (size_t i = 0; i < A2.n; ++i) for (auto j = A2.ptr[i]; j < A2.ptr[i + 1]; ++j) if ((size_t)A2.col[j] == i) A2.val[j] *= 1.05; if (r.coin(0.3)) A2 = vf::shuffle_rows(A2, r); return A2; }

// handles are destroyed through the C API even when a later call on them throws (a leak would otherwise be the harness's)
struct HPrecond { amgclHandle h; explicit HPrecond(amgclHandle h_) : h(h_) {} ~HPrecond() { if (h) amgcl_precond_destroy(h); } operator amgclHandle() const { return h; } HPrecond(const HPrecond&) = delete; };
struct HSolver { amgclHandle h; explicit HSolver(amgclHandle h_) : h(h_) {} ~HSolver() { if (h) amgcl_solver_destroy(h); } operator amgclHandle() const { return h; } HSolver(const HSolver&) = delete; };
template <class F> std::string guarded(F f) { try { f(); return ""; } catch (const std::exception &e) { return std::string("E:") + e.what(); } }

//--- sub-check: precond (create / apply / report / destroy, both index bases) --------------------------------
static void sub_precond() {
    long N = vf::tier(288, 2880);
    for (long idx = 0; idx < N; ++idx) {
        if (!vf::selected("precond", idx)) continue;
        Rng r(vf::case_seed("precond", idx)); std::string fam; Csr<double> A = gen_system(r, fam, idx % 4 == 3);
        int ci = (int)(idx % 4), ri = (int)(idx / 4 % 9); bool noprm = idx % 36 == 35;
        Prm p; if (!noprm) { random_amg_params(p, "", r, A.n, ci, ri); if (r.coin(0.4)) split_to_json(p, r); if (r.coin(0.35)) retype(p, r); }
        Case c("precond", idx, J().s("family", fam).n("n", A.n).n("nnz", A.nnz()).bl("null_params", noprm).s("prm", p.show()));
        JsonFile jf(p.json, idx);
        CArrays a0(A, 0), a1(A, 1);
        std::vector<std::vector<double>> rhs; for (int k = 0; k < 3; ++k) rhs.push_back(k == 0 ? std::vector<double>(A.n, 1.0) : vf::random_vector(A.n, r));
        // C++ twin
        std::vector<std::vector<double>> xr; std::string e_cpp = guarded([&] { ptree t = cpp_params(p, jf.path); std::unique_ptr<AMG> amg(noprm ? new AMG(A.tie()) : new AMG(A.tie(), t));
            for (auto &f : rhs) { std::vector<double> x(A.n, 555.0); amg->apply(f, x); xr.push_back(x); } });
        // C handles, 0-based and 1-based
        std::vector<CVec> x0, x1; std::string e_c, e_f;
        amgclHandle prm = noprm ? nullptr : c_params(p, jf.path);
        e_c = guarded([&] { HPrecond h(amgcl_precond_create(a0.n, a0.ptr.get(), a0.col.get(), a0.val.get(), prm));
            for (auto &f : rhs) { CVec cf(f), cx(std::vector<double>(A.n, 555.0)); amgcl_precond_apply(h, cf.p.get(), cx.p.get()); x0.push_back(std::move(cx)); }
            if (idx % 9 == 0) amgcl_precond_report(h);
            });
        e_f = guarded([&] { HPrecond h(amgcl_precond_create_f(a1.n, a1.ptr.get(), a1.col.get(), a1.val.get(), prm));
            for (auto &f : rhs) { CVec cf(f), cx(std::vector<double>(A.n, 555.0)); amgcl_precond_apply(h, cf.p.get(), cx.p.get()); x1.push_back(std::move(cx)); }
            });
        if (prm) amgcl_params_destroy(prm);
        std::string cell = std::string(noprm ? "default" : COARSENINGS[ci]) + "+" + (noprm ? "default" : RELAXATIONS[ri]);
        c.check(e_c == e_cpp, "precond:create:outcome-differs-from-c++", "C [" + e_c + "] C++ [" + e_cpp + "]");
        c.check(e_f == e_c, "precond_f:create:outcome-differs-from-0-based", "1-based [" + e_f + "] 0-based [" + e_c + "]");
        if (!e_c.empty() || !e_cpp.empty() || !e_f.empty()) { vf::obs_sum("precond_cases_with_exception"); { std::string m = e_cpp.substr(0, 60); for (auto &ch : m) if (ch == ',') ch = ';'; vf::obs_add("exceptions_seen_on_both_sides", m); } continue; }
        bool ok0 = true, ok1 = true, fin = true; for (size_t k = 0; k < rhs.size(); ++k) { ok0 = ok0 && x0[k].same(xr[k]); ok1 = ok1 && x1[k].same(x0[k]); for (double v : xr[k]) if (!std::isfinite(v)) fin = false; }
        c.check(ok0, "precond:apply:differs-from-c++", "amgcl_precond_apply result is not bitwise the C++ amg::apply result (" + cell + ")");
        c.check(ok1, "precond_f:apply:differs-from-0-based", "1-based create gives a different preconditioner (" + cell + ")");
        if (fin) c.nontrivial();
        vf::obs_add("precond_cells", cell);
        vf::sample("precond", J().s("cell", cell).s("family", fam).n("n", A.n).bl("json", !p.json.empty()).bl("bitwise_equal", ok0 && ok1));
    }
}

//--- sub-check: solver (create / solve / solve_mtx / report / destroy, both index bases) ---------------------
static void sub_solver() {
    long N = vf::tier(540, 5400);
    for (long idx = 0; idx < N; ++idx) {
        if (!vf::selected("solver", idx)) continue;
        Rng r(vf::case_seed("solver", idx)); std::string fam; Csr<double> A = gen_system(r, fam, idx % 5 == 4);
        if (vf::thorough() && idx % 60 == 7) { vf::GridSpec g; A = vf::model_problem(r, 3000, 8000, &g); fam = "grid_large"; }   // a few larger systems (several levels)
        Csr<double> A2 = replacement(A, r);
        int si = (int)(idx % 9), ci = (int)(idx / 9 % 4), ri = (int)r.range(0, 8); bool noprm = idx % 54 == 53;
        Prm p; if (!noprm) { random_amg_params(p, "precond.", r, A.n, ci, ri); random_solver_params(p, r, si); if (r.coin(0.4)) split_to_json(p, r); if (r.coin(0.35)) retype(p, r); }
        Case c("solver", idx, J().s("family", fam).n("n", A.n).n("nnz", A.nnz()).bl("null_params", noprm).s("prm", p.show()));
        JsonFile jf(p.json, idx);
        CArrays a0(A, 0), a1(A, 1), b0(A2, 0), b1(A2, 1);
        std::vector<double> f = vf::random_vector(A.n, r), xinit = r.coin() ? std::vector<double>(A.n, 0.0) : vf::random_vector(A.n, r);
        // C++ twin
        size_t it_r = 0, jt_r = 0; double rs_r = 0, qs_r = 0; std::vector<double> x_r = xinit, y_r = xinit;
        std::string e_cpp = guarded([&] { ptree t = cpp_params(p, jf.path); std::unique_ptr<Solver> s(noprm ? new Solver(A.tie()) : new Solver(A.tie(), t));
            std::tie(it_r, rs_r) = (*s)(f, x_r); std::tie(jt_r, qs_r) = (*s)(A2.tie(), f, y_r); });
        amgclHandle prm = noprm ? nullptr : c_params(p, jf.path);
        conv_info i0 = {-1, 0}, m0 = {-1, 0}, i1 = {-1, 0}, m1 = {-1, 0}; CVec cf(f), x0(xinit), y0(xinit), x1(xinit), y1(xinit);
        std::string e_c = guarded([&] { HSolver h(amgcl_solver_create(a0.n, a0.ptr.get(), a0.col.get(), a0.val.get(), prm));
            i0 = amgcl_solver_solve(h, cf.p.get(), x0.p.get());
            m0 = amgcl_solver_solve_mtx(h, b0.ptr.get(), b0.col.get(), b0.val.get(), cf.p.get(), y0.p.get());
            if (idx % 11 == 0) amgcl_solver_report(h);
            });
        std::string e_f = guarded([&] { HSolver h(amgcl_solver_create_f(a1.n, a1.ptr.get(), a1.col.get(), a1.val.get(), prm));
            std::unique_ptr<conv_info> ci1(new conv_info), cm1(new conv_info);                                  // exact-size blocks for the out-parameters
            amgcl_solver_solve_f(h, cf.p.get(), x1.p.get(), ci1.get()); i1 = *ci1;
            amgcl_solver_solve_mtx_f(h, b1.ptr.get(), b1.col.get(), b1.val.get(), cf.p.get(), y1.p.get(), cm1.get()); m1 = *cm1;
            });
        if (prm) amgcl_params_destroy(prm);
        std::string sn = noprm ? "default" : SOLVERS[si];
        c.check(e_c == e_cpp, "solver:create-solve:outcome-differs-from-c++", "C [" + e_c + "] C++ [" + e_cpp + "]");
        c.check(e_f == e_c, "solver_f:create-solve:outcome-differs-from-0-based", "1-based [" + e_f + "] 0-based [" + e_c + "]");
        if (!e_c.empty() || !e_cpp.empty() || !e_f.empty()) { vf::obs_sum("solver_cases_with_exception"); { std::string m = e_cpp.substr(0, 60); for (auto &ch : m) if (ch == ',') ch = ';'; vf::obs_add("exceptions_seen_on_both_sides", m); } continue; }
        c.check(i0.iterations == (int)it_r && !memcmp(&i0.residual, &rs_r, 8) && x0.same(x_r), "solver:solve:differs-from-c++", "(iterations, residual, x) of amgcl_solver_solve differ from the C++ make_solver (" + sn + ")", J().n("it_c", i0.iterations).n("it_cpp", it_r).n("res_c", i0.residual).n("res_cpp", rs_r));
        c.check(m0.iterations == (int)jt_r && !memcmp(&m0.residual, &qs_r, 8) && y0.same(y_r), "solver:solve_mtx:differs-from-c++", "(iterations, residual, x) of amgcl_solver_solve_mtx differ from the C++ make_solver (" + sn + ")", J().n("it_c", m0.iterations).n("it_cpp", jt_r));
        c.check(i1.iterations == i0.iterations && !memcmp(&i1.residual, &i0.residual, 8) && x1.same(x0), "solver_f:solve:differs-from-0-based", "amgcl_solver_solve_f differs from amgcl_solver_solve (" + sn + ")", J().n("it_f", i1.iterations).n("it_c", i0.iterations));
        c.check(m1.iterations == m0.iterations && !memcmp(&m1.residual, &m0.residual, 8) && y1.same(y0), "solver_f:solve_mtx:differs-from-0-based", "amgcl_solver_solve_mtx_f differs from amgcl_solver_solve_mtx (" + sn + ")", J().n("it_f", m1.iterations).n("it_c", m0.iterations));
        if (!x0.same(xinit) && std::isfinite(i0.residual)) c.nontrivial();
        vf::obs_add("solver_names", sn); vf::obs_add("solver_coarsenings", noprm ? "default" : COARSENINGS[ci]);
        vf::sample("solver", J().s("solver", sn).s("family", fam).n("n", A.n).n("iters", i0.iterations).n("resid", i0.residual).n("iters_mtx", m0.iterations).bl("json", !p.json.empty()));
    }
}

//--- sub-check: typed twin (values reach the solver unchanged) -----------------------------------------------
static float dyadic(Rng &r, int lo, int hi, int den) { return (float)r.range(lo, hi) / (float)den; }    // exact in float and in <= 9 decimal digits for den <= 1024

template <class CT, class Typed> void typed_case(long idx, const char *what, Typed fill) {
    Rng r(vf::case_seed("typed_twin", idx)); std::string fam; Csr<double> A = gen_system(r, fam, false);
    Prm p; typename CT::params tp; fill(p, tp, r, A.n);
    bool use_json = r.coin(0.5); if (use_json) split_to_json(p, r);
    Case c("typed_twin", idx, J().s("composition", what).s("family", fam).n("n", A.n).s("prm", p.show()));
    JsonFile jf(p.json, idx); CArrays a0(A, 0);
    std::vector<double> f = vf::random_vector(A.n, r), x_t(A.n, 0.0); size_t it_t = 0; double rs_t = 0;
    std::string e_t = guarded([&] { CT s(A.tie(), tp); std::tie(it_t, rs_t) = s(f, x_t); });
    amgclHandle prm = c_params(p, jf.path); conv_info i0 = {-1, 0}; CVec cf(f), x0(std::vector<double>(A.n, 0.0));
    std::string e_c = guarded([&] { HSolver h(amgcl_solver_create(a0.n, a0.ptr.get(), a0.col.get(), a0.val.get(), prm)); i0 = amgcl_solver_solve(h, cf.p.get(), x0.p.get()); });
    amgcl_params_destroy(prm);
    if (!c.check(e_c == e_t, std::string("typed_twin:") + what + ":outcome-differs", "C [" + e_c + "] typed C++ [" + e_t + "]") || !e_c.empty()) return;
    c.check(i0.iterations == (int)it_t && !memcmp(&i0.residual, &rs_t, 8) && x0.same(x_t), std::string("typed_twin:") + what + ":parameters-did-not-reach-the-solver-unchanged",
            "C API result differs from the compile-time solver whose params struct holds the values given to the setters / the JSON file", J().n("it_c", i0.iterations).n("it_typed", it_t).n("res_c", i0.residual).n("res_typed", rs_t));
    if (i0.iterations >= 1) c.nontrivial();
    vf::obs_add("typed_twin_compositions", what);
    vf::sample("typed_twin", J().s("composition", what).n("n", A.n).n("iters", i0.iterations).bl("json", use_json).bl("bitwise_equal", x0.same(x_t)));
}
static void sub_typed_twin() {
    using namespace amgcl; long N = vf::tier(150, 1500);
    for (long idx = 0; idx < N; ++idx) {
        if (!vf::selected("typed_twin", idx)) continue;
        switch (idx % 3) {
        case 0: typed_case<make_solver<amg<B, coarsening::smoothed_aggregation, relaxation::spai0>, solver::cg<B>>>(idx, "smoothed_aggregation+spai0+cg",
            [](Prm &p, auto &t, Rng &r, size_t n) { p.sets("precond.coarsening.type", "smoothed_aggregation"); p.sets("precond.relax.type", "spai0"); p.sets("solver.type", "cg");
                int ce = (int)r.range(8, (long)n / 3); p.seti("precond.coarse_enough", ce); t.precond.coarse_enough = ce;
                int np = (int)r.range(0, 3); p.seti("precond.npre", np); t.precond.npre = np;
                float es = dyadic(r, 1, 24, 128); p.setf("precond.coarsening.aggr.eps_strong", es); t.precond.coarsening.aggr.eps_strong = es;
                float rx = dyadic(r, 40, 90, 64); p.setf("precond.coarsening.relax", rx); t.precond.coarsening.relax = rx;
                int mi = (int)r.range(2, 30); p.seti("solver.maxiter", mi); t.solver.maxiter = mi;
                float tol = dyadic(r, 1, 1, 1 << (int)r.range(6, 12)); /* 2^-k, k <= 12: at most 9 significant decimal digits */ p.setf("solver.tol", tol); t.solver.tol = tol; }); break;
        case 1: typed_case<make_solver<amg<B, coarsening::ruge_stuben, relaxation::gauss_seidel>, solver::bicgstab<B>>>(idx, "ruge_stuben+gauss_seidel+bicgstab",
            [](Prm &p, auto &t, Rng &r, size_t n) { p.sets("precond.coarsening.type", "ruge_stuben"); p.sets("precond.relax.type", "gauss_seidel"); p.sets("solver.type", "bicgstab");
                int ce = (int)r.range(8, (long)n / 3); p.seti("precond.coarse_enough", ce); t.precond.coarse_enough = ce;
                float es = dyadic(r, 8, 32, 64); p.setf("precond.coarsening.eps_strong", es); t.precond.coarsening.eps_strong = es;
                int dt = (int)r.range(0, 1); p.seti("precond.coarsening.do_trunc", dt); t.precond.coarsening.do_trunc = dt != 0;
                float et = dyadic(r, 4, 24, 64); p.setf("precond.coarsening.eps_trunc", et); t.precond.coarsening.eps_trunc = et;
                int se = (int)r.range(0, 1); p.seti("precond.relax.serial", se); t.precond.relax.serial = se != 0;
                int npo = (int)r.range(1, 3); p.seti("precond.npost", npo); t.precond.npost = npo;
                bool left = r.coin(); p.sets("solver.pside", left ? "left" : "right"); t.solver.pside = left ? preconditioner::side::left : preconditioner::side::right;
                int mi = (int)r.range(2, 30); p.seti("solver.maxiter", mi); t.solver.maxiter = mi;
                p.sets("solver.tol", "1e-6"); t.solver.tol = 1e-6; }); break;
        default: typed_case<make_solver<amg<B, coarsening::aggregation, relaxation::damped_jacobi>, solver::gmres<B>>>(idx, "aggregation+damped_jacobi+gmres",
            [](Prm &p, auto &t, Rng &r, size_t n) { p.sets("precond.coarsening.type", "aggregation"); p.sets("precond.relax.type", "damped_jacobi"); p.sets("solver.type", "gmres");
                int ce = (int)r.range(8, (long)n / 3); p.seti("precond.coarse_enough", ce); t.precond.coarse_enough = ce;
                float oi = dyadic(r, 64, 128, 64); p.setf("precond.coarsening.over_interp", oi); t.precond.coarsening.over_interp = oi;
                float dm = dyadic(r, 24, 60, 64); p.setf("precond.relax.damping", dm); t.precond.relax.damping = dm;      // float setter into a double field: exact because dyadic
                int nc = (int)r.range(1, 2); p.seti("precond.ncycle", nc); t.precond.ncycle = nc;
                int M = (int)r.range(2, 20); p.seti("solver.M", M); t.solver.M = M;
                int mi = (int)r.range(2, 30); p.seti("solver.maxiter", mi); t.solver.maxiter = mi;
                p.sets("solver.tol", "0.0009765625"); t.solver.tol = 0.0009765625; }); break;
        }
    }
}

//--- sub-check: maxiter behaviour ---------------------------------------------------------------------------
static void sub_maxiter() {
    long N = vf::tier(100, 1000); const char *names[] = {"cg", "bicgstab", "gmres", "fgmres", "richardson"};
    for (long idx = 0; idx < N; ++idx) {
        if (!vf::selected("maxiter", idx)) continue;
        Rng r(vf::case_seed("maxiter", idx)); std::string fam; Csr<double> A = gen_system(r, fam, true);
        const char *sn = names[idx % 5]; int k = (int)r.range(1, 6); bool via_json = r.coin(0.3);
        Prm p; p.sets("solver.type", sn); p.seti("solver.maxiter", k); p.setf("solver.tol", 1e-30f); p.seti("precond.coarse_enough", 10); p.sets("precond.relax.type", "damped_jacobi"); p.seti("precond.npre", 1); p.seti("precond.npost", 0);
        if (via_json) split_to_json(p, r);
        Case c("maxiter", idx, J().s("solver", sn).n("maxiter", k).s("family", fam).n("n", A.n).s("prm", p.show()));
        JsonFile jf(p.json, idx); CArrays a0(A, 0); std::vector<double> f = vf::random_vector(A.n, r); CVec cf(f), x(std::vector<double>(A.n, 0.0)); conv_info i0 = {-1, 0};
        amgclHandle prm = c_params(p, jf.path);
        std::string e = guarded([&] { HSolver h(amgcl_solver_create(a0.n, a0.ptr.get(), a0.col.get(), a0.val.get(), prm)); i0 = amgcl_solver_solve(h, cf.p.get(), x.p.get()); });
        amgcl_params_destroy(prm);
        if (!c.check(e.empty(), std::string("maxiter:") + sn + ":exception", e)) continue;
        c.check(i0.iterations == k, std::string("maxiter:") + sn + ":not-honoured", "maxiter = k with tol = 1e-30 must stop after exactly k iterations", J().n("k", k).n("iterations", i0.iterations).n("residual", i0.residual));
        c.nontrivial();
    }
}

//--- sub-check: lifecycle (create/destroy pairs under LSan, including failing creates) ---------------------------
static void sub_lifecycle() {
    long N = vf::tier(120, 1200);
    for (long idx = 0; idx < N; ++idx) {
        if (!vf::selected("lifecycle", idx)) continue;
        Rng r(vf::case_seed("lifecycle", idx)); std::string fam; Csr<double> A = gen_system(r, fam, false);
        int mode = (int)(idx % 5);
        Prm p; random_amg_params(p, mode >= 2 ? "precond." : "", r, A.n, (int)r.range(0, 3), (int)r.range(0, 8)); if (mode >= 2) random_solver_params(p, r, (int)r.range(0, 8));
        if (mode == 4) { if (r.coin()) p.sets("solver.type", "no_such_solver"); else p.sets("precond.relax.type", "no_such_relaxation"); }        // creation must throw and leak nothing
        if (mode == 1 && r.coin(0.3)) p.sets("coarsening.type", "no_such_coarsening");
        Case c("lifecycle", idx, J().n("mode", mode).s("family", fam).n("n", A.n).s("prm", p.show()));
        CArrays a0(A, 0), a1(A, 1); bool expect_throw = p.show().find("no_such") != std::string::npos;
        int pairs = 0; std::string e;
        for (int rep = 0; rep < 3; ++rep) {
            amgclHandle prm = c_params(p, "");
            e = guarded([&] { amgclHandle h = mode < 2 ? (rep % 2 ? amgcl_precond_create_f(a1.n, a1.ptr.get(), a1.col.get(), a1.val.get(), prm) : amgcl_precond_create(a0.n, a0.ptr.get(), a0.col.get(), a0.val.get(), prm))
                                                   : (rep % 2 ? amgcl_solver_create_f(a1.n, a1.ptr.get(), a1.col.get(), a1.val.get(), prm) : amgcl_solver_create(a0.n, a0.ptr.get(), a0.col.get(), a0.val.get(), prm));
                if (mode < 2) amgcl_precond_destroy(h); else amgcl_solver_destroy(h); ++pairs; });
            amgcl_params_destroy(prm);
        }
        // only the invalid names are judged here; an exception of the library for a valid random parameter set (e.g. a singular coarse
        // matrix) is compared with the C++ outcome in the precond / solver sub-checks and merely counted here -- it must not leak either
        if (expect_throw) c.check(!e.empty(), "lifecycle:create:invalid-name-accepted", "an invalid component name did not raise an exception through the C API");
        else { c.check(true, "lifecycle:create", ""); if (!e.empty()) { std::string m = e.substr(0, 60); for (auto &ch : m) if (ch == ',') ch = ';'; vf::obs_add("lifecycle_exceptions_on_valid_parameters", m); } }
        if (pairs) c.nontrivial();
        vf::obs_sum("create_destroy_pairs", pairs); if (expect_throw) vf::obs_sum("failing_creates", 3);
    }
}

int main(int argc, char **argv) {
    vf::init(argc, argv);
    sub_precond(); sub_solver(); sub_typed_twin(); sub_maxiter(); sub_lifecycle();
    return vf::finish();
}
