// alloc.hpp -- replaceable global operator new/delete for the heap-content differential (C10).
// Every fresh allocation is filled with a selectable pattern (0x00, 0xFF, 0xAA, 0x55, pseudo-random bytes), freed
// blocks are overwritten with the complement, and churn() perturbs the allocation history so that addresses differ
// between runs.  malloc users are covered by mallopt(M_PERTURB).
// Include in exactly one translation unit.  With -DVF_NATIVE_NEW the operators are NOT replaced (ASan / valgrind
// builds, which need the instrumented / shadow-tracked allocator) and only M_PERTURB + churn remain.
#pragma once
#include <cstdlib>
#include <cstddef>
#include <cstring>
#include <cstdint>
#include <new>
#include <vector>
#include <string>
#include <malloc.h>

namespace vf { namespace alloc {

enum Fill { F00 = 0, FFF, FAA, F55, FRND, FNATIVE };
struct State { int mode = FNATIVE; uint64_t rng = 88172645463325252ULL; unsigned long long allocs = 0, bytes = 0; bool active = false; };
inline State &st() { static State s; return s; }
inline size_t &cap() { static size_t c = (size_t)2 << 30; return c; }      // largest single request served (valid workloads of the harnesses stay far below)

inline const char *fill_name(int m) { static const char *n[] = {"00", "ff", "aa", "55", "rnd", "native"}; return n[m]; }
inline int fill_from_name(const std::string &s) { for (int m = 0; m <= FNATIVE; ++m) if (s == fill_name(m)) return m; return -1; }

inline void fill_block(void *p, size_t n, bool freed) {
    State &s = st(); if (!s.active || s.mode == FNATIVE || !n) return;
    unsigned char b = 0;
    switch (s.mode) { case F00: b = 0x00; break; case FFF: b = 0xFF; break; case FAA: b = 0xAA; break; case F55: b = 0x55; break; default: break; }
    if (s.mode != FRND) { memset(p, freed ? (unsigned char)~b : b, n); return; }
    unsigned char *c = static_cast<unsigned char*>(p); uint64_t x = s.rng;
    size_t i = 0; for (; i + 8 <= n; i += 8) { x ^= x << 13; x ^= x >> 7; x ^= x << 17; memcpy(c + i, &x, 8); }
    for (; i < n; ++i) { x ^= x << 13; x ^= x >> 7; x ^= x << 17; c[i] = (unsigned char)x; }
    s.rng = x;
}

// select the fill pattern for everything allocated from now on
inline void set_fill(int mode, uint64_t seed) {
    State &s = st(); s.mode = mode; s.rng = seed * 0x9e3779b97f4a7c15ULL | 1; s.active = true;
    int pb = 0; switch (mode) { case F00: pb = 0; break; case FFF: pb = 0xFF; break; case FAA: pb = 0xAA; break; case F55: pb = 0x55; break; case FRND: pb = (int)(seed % 251) + 1; break; default: pb = 0; }
    mallopt(M_PERTURB, pb);      // malloc() fills with ~pb, free() with pb: covers code that bypasses operator new
}

// allocation churn: a seed-dependent pattern of live and freed blocks so that later allocations land at different addresses
struct Churn { std::vector<void*> keep;
    void run(uint64_t seed, int blocks = 200) {
        release(); uint64_t x = seed | 1; std::vector<void*> tmp;
        for (int i = 0; i < blocks; ++i) { x ^= x << 13; x ^= x >> 7; x ^= x << 17; size_t n = 8 + (size_t)(x % 5000); if (x % 17 == 0) n *= 40; void *p = ::operator new(n); (x >> 20) % 2 ? keep.push_back(p) : tmp.push_back(p); }
        for (void *p : tmp) ::operator delete(p);
    }
    void release() { for (void *p : keep) ::operator delete(p); keep.clear(); }
    ~Churn() { release(); }
};

// scribble over the part of the stack that the next calls will use
__attribute__((noinline)) inline void stack_scribble(unsigned char b, uint64_t seed) {
    volatile unsigned char buf[256 * 1024]; uint64_t x = seed | 1;
    for (size_t i = 0; i < sizeof(buf); ++i) { if (st().mode == FRND) { x ^= x << 13; x ^= x >> 7; x ^= x << 17; buf[i] = (unsigned char)x; } else buf[i] = b; }
    asm volatile("" ::: "memory");
}
inline unsigned char fill_byte() { switch (st().mode) { case FFF: return 0xFF; case FAA: return 0xAA; case F55: return 0x55; default: return 0; } }

} } // namespace vf::alloc

#ifndef VF_NATIVE_NEW
static inline void *vf_new_impl(size_t n, size_t align, bool nothrow) {
    void *p = nullptr; if (!n) n = 1;
    if (n > vf::alloc::cap()) { if (nothrow) return nullptr; throw std::bad_alloc(); }     // a garbage size must fail cleanly, not commit the machine's memory through the fill
    if (align > alignof(std::max_align_t)) { if (posix_memalign(&p, align, n)) p = nullptr; } else p = malloc(n);
    if (!p) { if (nothrow) return nullptr; throw std::bad_alloc(); }
    auto &s = vf::alloc::st(); ++s.allocs; s.bytes += n;
    vf::alloc::fill_block(p, n, false); return p;
}
static inline void vf_delete_impl(void *p) { if (!p) return; vf::alloc::fill_block(p, malloc_usable_size(p), true); free(p); }
void *operator new(size_t n) { return vf_new_impl(n, 0, false); }
void *operator new[](size_t n) { return vf_new_impl(n, 0, false); }
void *operator new(size_t n, const std::nothrow_t&) noexcept { return vf_new_impl(n, 0, true); }
void *operator new[](size_t n, const std::nothrow_t&) noexcept { return vf_new_impl(n, 0, true); }
void *operator new(size_t n, std::align_val_t a) { return vf_new_impl(n, (size_t)a, false); }
void *operator new[](size_t n, std::align_val_t a) { return vf_new_impl(n, (size_t)a, false); }
void *operator new(size_t n, std::align_val_t a, const std::nothrow_t&) noexcept { return vf_new_impl(n, (size_t)a, true); }
void *operator new[](size_t n, std::align_val_t a, const std::nothrow_t&) noexcept { return vf_new_impl(n, (size_t)a, true); }
void operator delete(void *p) noexcept { vf_delete_impl(p); }
void operator delete[](void *p) noexcept { vf_delete_impl(p); }
void operator delete(void *p, size_t) noexcept { vf_delete_impl(p); }
void operator delete[](void *p, size_t) noexcept { vf_delete_impl(p); }
void operator delete(void *p, const std::nothrow_t&) noexcept { vf_delete_impl(p); }
void operator delete[](void *p, const std::nothrow_t&) noexcept { vf_delete_impl(p); }
void operator delete(void *p, std::align_val_t) noexcept { vf_delete_impl(p); }
void operator delete[](void *p, std::align_val_t) noexcept { vf_delete_impl(p); }
void operator delete(void *p, size_t, std::align_val_t) noexcept { vf_delete_impl(p); }
void operator delete[](void *p, size_t, std::align_val_t) noexcept { vf_delete_impl(p); }
#define VF_NEW_REPLACED 1
#else
#define VF_NEW_REPLACED 0
#endif
