// c06_relax.hpp -- shared body of the C06 harness (every relaxation sweep equals its
// mathematical definition), templated over the value type (double, std::complex<double>,
// static_matrix<double,2,2>).  Instantiated by harness/c06_*.cpp, one translation unit per
// value type so that no TU compiles for more than about a minute.
//
// Reference model: everything is expanded to a dense complex<long double> matrix of size
// (n * block) and the documented definition of each smoother is evaluated there.
#pragma once
#include <amgcl/backend/builtin.hpp>
#include <amgcl/value_type/static_matrix.hpp>
#include <amgcl/value_type/complex.hpp>
#include <amgcl/adapter/crs_tuple.hpp>
#include <amgcl/relaxation/damped_jacobi.hpp>
#include <amgcl/relaxation/gauss_seidel.hpp>
#include <amgcl/relaxation/spai0.hpp>
#include <amgcl/relaxation/spai1.hpp>
#include <amgcl/relaxation/chebyshev.hpp>
#include <amgcl/relaxation/ilu0.hpp>
#include <amgcl/relaxation/iluk.hpp>
#include <amgcl/relaxation/ilup.hpp>
#include <amgcl/relaxation/ilut.hpp>
#include <amgcl/relaxation/as_preconditioner.hpp>
#include <vf/hooks.hpp>
#include <vf/dense.hpp>
#include <omp.h>
#include <set>

namespace c06 {
using namespace amgcl;
using vf::Csr; using vf::J; using vf::Rng; using vf::Case; using vf::LZ; using vf::LZV; using vf::LD;
typedef std::complex<long double> ZL;
static const long double U64 = 1.1102230246251565e-16L;

inline void require(bool ok, const char *what) { if (!ok) { fprintf(stderr, "c06 harness inconsistency: %s\n", what); exit(3); } }

// one failure line per (case, key) with an occurrence count (several parameter sets run inside one case)
struct Chk {
    Case &cs; std::string ctx; std::map<std::string, std::tuple<long, std::string, J, std::string>> f;
    explicit Chk(Case &c_) : cs(c_) {}
    bool check(bool ok, const std::string &key, const std::string &what, const J &detail = J()) {
        ++cs.checks; if (!ok) { auto &e = f[key]; if (!std::get<0>(e)++) { std::get<1>(e) = what; std::get<2>(e) = detail; std::get<3>(e) = ctx; } } return ok; }
    bool check_le(long double value, long double bound, const std::string &key, const std::string &what, J detail = J()) {
        bool ok = std::isfinite((double)value) && std::isfinite((double)bound) && value <= bound;
        return check(ok, key, what, detail.n("value", (double)value).n("bound", (double)bound)); }
    ~Chk() { for (auto &kv : f) { J d = std::get<2>(kv.second); d.n("occurrences_in_case", std::get<0>(kv.second)); if (!std::get<3>(kv.second).empty()) d.s("first_witness", std::get<3>(kv.second)); cs.fail(kv.first, std::get<1>(kv.second), d); } }
};

//---------------------------------------------------------------------------
// value-type traits
//---------------------------------------------------------------------------
template <class V> struct vt;
template <> struct vt<double> {
    enum { bs = 1 }; typedef double rhs; static const char *name() { return "real"; } static const bool cplx = false;
    static ZL get(const double &v, int, int) { return ZL(v, 0); } static void set(double &v, int, int, ZL z) { v = (double)z.real(); }
    static ZL rget(const rhs &v, int) { return ZL(v, 0); } static void rset(rhs &v, int, ZL z) { v = (double)z.real(); }
};
template <> struct vt<std::complex<double>> {
    enum { bs = 1 }; typedef std::complex<double> rhs; static const char *name() { return "complex"; } static const bool cplx = true;
    static ZL get(const rhs &v, int, int) { return ZL(v.real(), v.imag()); } static void set(rhs &v, int, int, ZL z) { v = rhs((double)z.real(), (double)z.imag()); }
    static ZL rget(const rhs &v, int) { return ZL(v.real(), v.imag()); } static void rset(rhs &v, int, ZL z) { v = rhs((double)z.real(), (double)z.imag()); }
};
template <int N> struct vt<static_matrix<double, N, N>> {
    enum { bs = N }; typedef static_matrix<double, N, 1> rhs; typedef static_matrix<double, N, N> V; static const char *name() { return "block"; } static const bool cplx = false;
    static ZL get(const V &v, int p, int q) { return ZL(v(p, q), 0); } static void set(V &v, int p, int q, ZL z) { v(p, q) = (double)z.real(); }
    static ZL rget(const rhs &v, int p) { return ZL(v(p), 0); } static void rset(rhs &v, int p, ZL z) { v(p) = (double)z.real(); }
};

template <class V> LZ dense_of(const Csr<V> &A) {
    const int b = vt<V>::bs; LZ D = LZ::Zero(A.n * b, A.m * b);
    for (size_t i = 0; i < A.n; ++i) for (ptrdiff_t j = A.ptr[i]; j < A.ptr[i + 1]; ++j) for (int p = 0; p < b; ++p) for (int q = 0; q < b; ++q) D(i * b + p, A.col[j] * b + q) += vt<V>::get(A.val[j], p, q);
    return D;
}
template <class V, class M> LZ dense_of_crs(const M &A) {
    const int b = vt<V>::bs; LZ D = LZ::Zero(A.nrows * b, A.ncols * b);
    for (size_t i = 0; i < A.nrows; ++i) for (auto j = A.ptr[i]; j < A.ptr[i + 1]; ++j) for (int p = 0; p < b; ++p) for (int q = 0; q < b; ++q) D(i * b + p, A.col[j] * b + q) += vt<V>::get(A.val[j], p, q);
    return D;
}
inline LD absm(const LZ &M) { LD R(M.rows(), M.cols()); for (int i = 0; i < M.rows(); ++i) for (int j = 0; j < M.cols(); ++j) R(i, j) = std::abs(M(i, j)); return R; }
inline long double norminf(const LD &M) { long double r = 0; for (int i = 0; i < M.rows(); ++i) { long double s = 0; for (int j = 0; j < M.cols(); ++j) s += fabsl(M(i, j)); r = std::max(r, s); } return r; }
inline long double norminf(const LZ &M) { return norminf(absm(M)); }
inline long double vinf(const LZV &v) { long double r = 0; for (int i = 0; i < v.size(); ++i) r = std::max(r, std::abs(v[i])); return r; }
inline LZ inverse(const LZ &M) { Eigen::PartialPivLU<LZ> lu(M); LZ I = LZ::Identity(M.rows(), M.cols()); LZ R = lu.solve(I); return R; }

template <class V> using Vec = backend::numa_vector<typename vt<V>::rhs>;
template <class V> void to_vec(const LZV &x, Vec<V> &v) { const int b = vt<V>::bs; for (size_t i = 0; i < v.size(); ++i) for (int p = 0; p < b; ++p) vt<V>::rset(v[i], p, x[i * b + p]); }
template <class V> LZV from_vec(const Vec<V> &v) { const int b = vt<V>::bs; LZV x(v.size() * b); for (size_t i = 0; i < v.size(); ++i) for (int p = 0; p < b; ++p) x[i * b + p] = vt<V>::rget(v[i], p); return x; }
// random vector whose components are exactly representable doubles
template <class V> LZV random_lzv(size_t N, Rng &r, bool integer) { LZV x(N); for (size_t i = 0; i < N; ++i) { double re = integer ? (double)r.range(-4, 4) : r.uni(-1, 1), im = vt<V>::cplx ? (integer ? (double)r.range(-4, 4) : r.uni(-1, 1)) : 0.0; x[i] = ZL(re, im); } return x; }

//---------------------------------------------------------------------------
// skeletons (real CRS) and value lifting
//---------------------------------------------------------------------------
struct Skel { Csr<double> A; std::string family; bool pattern_sym = false, integer = false; };
inline bool pattern_symmetric(const Csr<double> &A) { Csr<double> T = vf::transpose(A); return T.ptr == A.ptr && T.col == A.col; }

// integer-valued strictly (2x) diagonally dominant matrix on the pattern of P
inline Csr<double> int_dd_from_pattern(const Csr<double> &P, Rng &r) {
    Csr<double> A(P.n, P.n);
    for (size_t i = 0; i < P.n; ++i) { std::vector<std::pair<ptrdiff_t, double>> row; double s = 0;
        for (auto j = P.ptr[i]; j < P.ptr[i + 1]; ++j) if (P.col[j] != (ptrdiff_t)i) { double v = (double)r.range(1, 3) * (r.coin(0.7) ? -1 : 1); row.emplace_back(P.col[j], v); s += std::fabs(v); }
        row.emplace_back(i, (2 * s + (double)r.range(2, 4)) * (r.coin(0.1) ? -1 : 1)); std::sort(row.begin(), row.end()); for (auto &e : row) A.push(e.first, e.second); A.end_row(); }
    return A;
}
inline Skel gen_skeleton(Rng &r, bool integer, int maxn) {
    Skel s; s.integer = integer; int kind = (int)r.range(0, 5); int side = std::max(3, (int)std::sqrt((double)maxn));
    if (kind == 0) { vf::GridSpec g; g.nx = (int)r.range(2, side); g.ny = (int)r.range(2, side); g.contrast = r.coin() ? 1 : r.logu(1, 100); g.aniso = r.coin() ? 1 : r.logu(0.01, 1); g.nine = r.coin(0.3); g.shift = r.coin() ? 0 : r.uni(0, 1); s.A = vf::grid_diffusion(g, r); s.family = "G1-grid"; }
    else if (kind == 1) { s.A = vf::graph_laplacian(r.range(4, maxn), r.uni(2, 5), r, r.coin(), true); s.family = "G2-graph"; }
    else if (kind == 2) { bool ns = r.coin(); s.A = vf::convdiff((int)r.range(2, side), (int)r.range(2, side), r.logu(0.1, 20), r, ns); s.family = ns ? "G3-convdiff-structnonsym" : "G3-convdiff"; }
    else if (kind == 3) { bool sp = r.coin(); s.A = vf::random_dd(r.range(3, maxn), r.uni(0.05, 0.4), r, sp); s.family = "random-dd"; }
    else if (kind == 4) { size_t n = r.range(3, 6); uint64_t mask = r.next() & ((1ULL << vf::offdiag_count(n)) - 1); bool sym = r.coin(0.4); if (sym) mask = vf::sym_mask_to_full(n, mask & ((1ULL << (n * (n - 1) / 2)) - 1));
        s.A = vf::pattern_matrix(n, mask, [&](size_t, size_t) { return r.uni(0.2, 1.0) * (r.coin(0.75) ? -1 : 1); }, [&](size_t, double sum) { return sum + r.uni(0.3, 1.0); }); s.family = "G7-pattern"; }
    else { bool tri = r.coin(); size_t n = r.range(3, maxn); Csr<double> P(n, n); for (size_t i = 0; i < n; ++i) { for (size_t j = 0; j < n; ++j) { bool nz = i == j || (tri ? (i + 1 == j || j + 1 == i) : (i == n - 1 || j == n - 1)); if (nz) P.push(j, i == j ? 4.0 + r.uni(0, 1) : -r.uni(0.2, 1.0) / (tri ? 1.0 : (double)n / 2)); } P.end_row(); } s.A = P; s.family = tri ? "tridiagonal" : "arrow"; }
    if (integer) s.A = int_dd_from_pattern(s.A, r);
    s.pattern_sym = pattern_symmetric(s.A);
    for (size_t i = 0; i < s.A.n; ++i) { bool d = false; for (auto j = s.A.ptr[i]; j < s.A.ptr[i + 1]; ++j) { if (s.A.col[j] == (ptrdiff_t)i && s.A.val[j] != 0) d = true; if (j > s.A.ptr[i]) require(s.A.col[j - 1] < s.A.col[j], "skeleton rows sorted"); } require(d, "skeleton has a non-zero diagonal"); }
    return s;
}

template <class V> struct lift;
template <> struct lift<double> { static Csr<double> make(const Skel &s, Rng &, std::string &kind) { kind = "real"; return s.A; } };
template <> struct lift<std::complex<double>> {
    typedef std::complex<double> Z;
    static Csr<Z> make(const Skel &s, Rng &r, std::string &kind) {
        if (!s.integer && r.coin(0.4)) { kind = "hermitian-gauge"; return vf::complex_hermitian(s.A, r); }
        const Csr<double> &A = s.A; Csr<Z> C(A.n, A.m); C.ptr = A.ptr; C.col = A.col; C.val.resize(A.nnz()); kind = s.integer ? "gaussian-integer" : "random-phase+shift";
        static const Z unit[4] = {Z(1, 0), Z(0, 1), Z(-1, 0), Z(0, -1)};
        for (size_t i = 0; i < A.n; ++i) for (auto j = A.ptr[i]; j < A.ptr[i + 1]; ++j) {
            if (A.col[j] == (ptrdiff_t)i) C.val[j] = s.integer ? Z(A.val[j], (double)r.range(-2, 2)) : A.val[j] * Z(1, r.uni(-0.3, 0.3));
            else C.val[j] = s.integer ? A.val[j] * unit[r.range(0, 3)] : A.val[j] * std::polar(1.0, r.uni(0, 6.2831853)); }
        return C;
    }
};
// real blocks: |A_ij|_inf <= 0.7 |s_ij| and |A_ii^-1|_inf <= 1 / (0.75 |s_ii|), so a (weakly) dominant skeleton gives block diagonal dominance
template <int N> struct lift<static_matrix<double, N, N>> {
    typedef static_matrix<double, N, N> Bk;
    static Csr<Bk> make(const Skel &s, Rng &r, std::string &kind) {
        const Csr<double> &A = s.A; Csr<Bk> C(A.n, A.m); C.ptr = A.ptr; C.col = A.col; C.val.resize(A.nnz()); kind = s.integer ? "integer-blocks" : "real-blocks";
        for (size_t i = 0; i < A.n; ++i) for (auto j = A.ptr[i]; j < A.ptr[i + 1]; ++j) { Bk b = math::zero<Bk>();
            if (A.col[j] == (ptrdiff_t)i) { for (int p = 0; p < N; ++p) for (int q = 0; q < N; ++q) b(p, q) = p == q ? A.val[j] : (s.integer ? (double)r.range(-1, 1) : A.val[j] * r.uni(-0.25, 0.25) / (N - 1)); }
            else { bool any = false; for (int p = 0; p < N; ++p) for (int q = 0; q < N; ++q) { double cc = s.integer ? (double)r.range(-1, 1) : 0.7 * r.uni(-1, 1) / N; if (cc != 0) any = true; b(p, q) = A.val[j] * cc; } if (!any) b(0, 0) = A.val[j]; }
            C.val[j] = b; }
        return C;
    }
};

template <class V> struct Sys {
    Skel meta; std::string vkind; Csr<V> A; std::shared_ptr<backend::crs<V>> Am; LZ D; size_t n = 0, N = 0, maxrow = 0; long double normA = 0;
    void finish() { n = A.n; N = n * vt<V>::bs; Am = std::make_shared<backend::crs<V>>(A.n, A.m, A.ptr, A.col, A.val); D = dense_of(A); normA = norminf(D); for (size_t i = 0; i < n; ++i) maxrow = std::max<size_t>(maxrow, A.ptr[i + 1] - A.ptr[i]); }
    J desc() const { return J().s("family", meta.family).s("values", std::string(vt<V>::name()) + ":" + vkind).n("n", n).n("nnz", A.nnz()).bl("pattern_symmetric", meta.pattern_sym).bl("integer", meta.integer).n("threads", omp_get_max_threads()); }
};
template <class V> Sys<V> make_system(Rng &r, bool integer, int maxn) { Sys<V> S; S.meta = gen_skeleton(r, integer, maxn); S.A = lift<V>::make(S.meta, r, S.vkind); S.finish(); return S; }
template <class V> Sys<V> make_system_from(const Skel &sk, Rng &r) { Sys<V> S; S.meta = sk; S.A = lift<V>::make(S.meta, r, S.vkind); S.finish(); return S; }

// diagonal blocks (dense) and their inverses
template <class V> LZ diag_part(const Sys<V> &S, bool invert) { const int b = vt<V>::bs; LZ R = LZ::Zero(S.N, S.N); for (size_t i = 0; i < S.n; ++i) { LZ blk = S.D.block(i * b, i * b, b, b); if (invert) { LZ t = inverse(blk); blk = t; } R.block(i * b, i * b, b, b) = blk; } return R; }
template <class V> LZ tri_part(const Sys<V> &S, bool lower) { const int b = vt<V>::bs; LZ R = LZ::Zero(S.N, S.N); for (size_t i = 0; i < S.n; ++i) for (size_t j = 0; j < S.n; ++j) if (lower ? j <= i : j >= i) R.block(i * b, j * b, b, b) = S.D.block(i * b, j * b, b, b); return R; }

//---------------------------------------------------------------------------
// Sweep oracle.  Reference: x' = x + N (f - A x) with the dense N of the documented splitting.
// Norm-wise forward bound of one sweep made of `steps` residual/solve stages:
//    |x'_lib - x'_ref|_inf <= K u ( |x|_inf + E (|f|_inf + |A|_inf |x|_inf) ),  K = 8 (maxrow*bs + 8) steps,
// where E bounds the error amplification of applying N (E = |N|_inf for diagonal / explicit N,
// | |T^-1| |T| |T^-1| |_inf for triangular solves -- Higham, Thm 8.5).
//---------------------------------------------------------------------------
struct Ref { LZ N; long double E = 0; int steps = 1; };
template <class V> long double sweep_bound(const Sys<V> &S, const Ref &R, const LZV &f, const LZV &x) { long double K = 8.0L * (S.maxrow * vt<V>::bs + 8) * R.steps; return K * U64 * (vinf(x) + R.E * (vinf(f) + S.normA * vinf(x))) + 1e-300L; }

enum Which { PRE, POST, APPLY };
template <class V, class Relax> LZV run_sweep(const Sys<V> &S, Relax &R, Which w, const LZV &f, const LZV &x0) {
    Vec<V> fv(S.n), xv(S.n), tv(S.n); to_vec<V>(f, fv); to_vec<V>(x0, xv);
    if (w == PRE) R.apply_pre(*S.Am, fv, xv, tv); else if (w == POST) R.apply_post(*S.Am, fv, xv, tv); else R.apply(*S.Am, fv, xv);
    return from_vec<V>(xv);
}
template <class V, class Relax> void check_sweep(Chk &c, const std::string &name, const Sys<V> &S, Relax &R, Which w, const Ref &ref, Rng &r, int reps = 2) {
    static const char *wn[3] = {"pre", "post", "apply"};
    for (int rep = 0; rep < reps; ++rep) {
        LZV f = random_lzv<V>(S.N, r, false), x0 = w == APPLY ? random_lzv<V>(S.N, r, false) : (rep == 0 ? LZV(LZV::Zero(S.N)) : random_lzv<V>(S.N, r, false));
        LZV got = run_sweep<V>(S, R, w, f, x0);
        LZV xr = w == APPLY ? LZV(LZV::Zero(S.N)) : x0;       // apply() ignores the incoming x
        LZV res = f - S.D * xr; LZV want = xr + ref.N * res;
        long double err = vinf(got - want), bound = sweep_bound(S, ref, f, xr);
        bool fin = true; for (int i = 0; i < got.size(); ++i) if (!std::isfinite((double)got[i].real()) || !std::isfinite((double)got[i].imag())) fin = false;
        c.check(fin, name + ":" + wn[w] + ":non-finite", "sweep produced NaN/Inf on a diagonally dominant system");
        c.check_le(err, bound, name + ":" + wn[w] + ":definition", std::string("result differs from x + M^-1 (f - A x) for the documented M (") + wn[w] + ")");
        if (fin && bound > 0) vf::obs_max("sweep_err_over_bound_" + name, (double)(err / bound));
    }
}
// Fixed point on integer data: f = A x* exactly.  For Gauss-Seidel the already updated neighbours carry their own rounding, so the
// bound is norm-wise: the integer systems are 2x diagonally dominant and the error recursion d <= 2u|x| + d/2 stays below 4u |x|_inf.
//  bitwise => x* returned bit for bit; otherwise |x - x*| <= tol_u * u * scale
template <class V, class Relax> void check_fixed_point(Chk &c, const std::string &name, const Sys<V> &S, Relax &R, Rng &r, double tol_u) {
    require(S.meta.integer, "fixed point needs integer data");
    LZV xs = random_lzv<V>(S.N, r, true); LZV f = S.D * xs;
    for (int i = 0; i < f.size(); ++i) require(f[i].real() == std::round(f[i].real()) && std::fabs((double)f[i].real()) < 1e12, "integer rhs exact");
    for (int w = 0; w < 2; ++w) {
        LZV got = run_sweep<V>(S, R, w ? POST : PRE, f, xs); bool ok = true; long double worst = 0;
        for (int i = 0; i < got.size(); ++i) { if (tol_u == 0) { double a = (double)got[i].real(), b2 = (double)xs[i].real(), ai = (double)got[i].imag(), bi = (double)xs[i].imag(); if (a != b2 || ai != bi || std::signbit(a) != std::signbit(b2)) ok = false; }
            else { long double d = std::abs(got[i] - xs[i]); long double sc = vinf(xs); if (!(d <= tol_u * U64 * sc)) ok = false; if (sc > 0) worst = std::max(worst, d / (U64 * sc)); } }
        c.check(ok, name + (w ? ":post" : ":pre") + ":fixed-point", tol_u == 0 ? "the exact solution is not returned bit for bit" : "the exact solution moved by more than the rounding of one division", J().n("worst_in_u", (double)worst));
    }
}

//---------------------------------------------------------------------------
// damped Jacobi / SPAI-0 / Gauss-Seidel
//---------------------------------------------------------------------------
template <class V> void check_jacobi(Chk &c, const Sys<V> &S, Rng &r, double damping) {
    typedef backend::builtin<V> B; typedef relaxation::damped_jacobi<B> R; typename R::params p; p.damping = damping; typename B::params bp;
    try { R rel(*S.Am, p, bp); LZ Di = diag_part(S, true);
        if (S.meta.integer) { check_fixed_point<V>(c, "damped_jacobi", S, rel, r, 0); return; }
        Ref ref; ref.N = ZL(damping) * Di; ref.E = norminf(ref.N); check_sweep<V>(c, "damped_jacobi", S, rel, PRE, ref, r); check_sweep<V>(c, "damped_jacobi", S, rel, POST, ref, r);
        Ref ra; ra.N = Di; ra.E = norminf(Di); check_sweep<V>(c, "damped_jacobi", S, rel, APPLY, ra, r, 1);
    } catch (const std::exception &e) { c.check(false, "damped_jacobi:exception", e.what()); }
}
template <class V> void check_spai0(Chk &c, const Sys<V> &S, Rng &r) {
    typedef backend::builtin<V> B; typedef relaxation::spai0<B> R; typename R::params p; typename B::params bp; const int b = vt<V>::bs;
    try { R rel(*S.Am, p, bp);
        if (S.meta.integer) { check_fixed_point<V>(c, "spai0", S, rel, r, 0); return; }
        // m_i = a_ii / sum_j |a_ij|^2 (Frobenius norms for blocks).  For real scalars (and Hermitian diagonals) this is the
        // minimiser of |e_i^T - m a_i^T|_2, i.e. the row-wise least-squares definition of the property.
        LZ Mref = LZ::Zero(S.N, S.N); bool ok = true; double worst = 0;
        for (size_t i = 0; i < S.n; ++i) { long double den = 0; for (size_t jj = 0; jj < S.N; ++jj) for (int p2 = 0; p2 < b; ++p2) den += std::norm(S.D(i * b + p2, jj)); LZ blk = S.D.block(i * b, i * b, b, b) / ZL(den); Mref.block(i * b, i * b, b, b) = blk;
            for (int p2 = 0; p2 < b; ++p2) for (int q = 0; q < b; ++q) { long double d = std::abs(vt<V>::get((*rel.M)[i], p2, q) - blk(p2, q)), bd = 4 * (S.maxrow * b * b + 4) * U64 * (blk.cwiseAbs().maxCoeff()); if (!(d <= bd)) ok = false; if (bd > 0) worst = std::max(worst, (double)(d / bd)); } }
        c.check(ok, "spai0:coefficients", "M_ii differs from a_ii / sum_j |a_ij|^2", J().n("excess", worst));
        Ref ref; ref.N = Mref; ref.E = norminf(Mref); check_sweep<V>(c, "spai0", S, rel, PRE, ref, r); check_sweep<V>(c, "spai0", S, rel, POST, ref, r); check_sweep<V>(c, "spai0", S, rel, APPLY, ref, r, 1);
    } catch (const std::exception &e) { c.check(false, "spai0:exception", e.what()); }
}
template <class V> void check_gauss_seidel(Chk &c, const Sys<V> &S, Rng &r, bool serial) {
    typedef backend::builtin<V> B; typedef relaxation::gauss_seidel<B> R; typename R::params p; p.serial = serial; typename B::params bp;
    try { R rel(*S.Am, p, bp); std::string name = rel.is_serial ? "gauss_seidel(serial)" : "gauss_seidel(parallel)"; vf::obs_sum(rel.is_serial ? "gs_serial_objects" : "gs_parallel_objects");
        if (S.meta.integer) { check_fixed_point<V>(c, name, S, rel, r, vt<V>::bs > 1 ? 64 : (vt<V>::cplx ? 8 : 4)); return; }
        LZ Lo = tri_part(S, true), Up = tri_part(S, false), Li = inverse(Lo), Ui = inverse(Up);
        Ref pre; pre.N = Li; pre.E = norminf(LD(absm(Li) * absm(Lo) * absm(Li)));
        Ref post; post.N = Ui; post.E = norminf(LD(absm(Ui) * absm(Up) * absm(Ui)));
        check_sweep<V>(c, name, S, rel, PRE, pre, r); check_sweep<V>(c, name, S, rel, POST, post, r);
        Ref ap; ap.N = Li + Ui * (LZ::Identity(S.N, S.N) - S.D * Li); ap.E = pre.E + post.E * (1 + S.normA * pre.E); ap.steps = 2; check_sweep<V>(c, name, S, rel, APPLY, ap, r, 1);
    } catch (const std::exception &e) { c.check(false, "gauss_seidel:exception", e.what()); }
}

//---------------------------------------------------------------------------
// SPAI-1 (scalar value types): pattern of A; every row minimises |e_i^T - m_i^T A|_2 over that pattern, i.e. the
// normal-equation residual  conj(A_I) (A_I^T m - e_i)  vanishes (A_I = rows of A listed in the pattern of row i).
// Householder least squares is backward stable: |g| <= c rows cols u |B|_F (|B|_F |m| + 1), c = 20.
//---------------------------------------------------------------------------
template <class V> void check_spai1(Chk &c, const Sys<V> &S, Rng &r) {
    typedef backend::builtin<V> B; typedef relaxation::spai1<B> R; typename R::params p; typename B::params bp;
    try { R rel(*S.Am, p, bp);
        if (S.meta.integer) { check_fixed_point<V>(c, "spai1", S, rel, r, 0); return; }
        const auto &M = *rel.M; bool pat = M.nrows == S.n && M.ncols == S.n && M.nnz == S.A.nnz();
        for (size_t i = 0; pat && i <= S.n; ++i) if (M.ptr[i] != S.A.ptr[i]) pat = false; for (size_t j = 0; pat && j < S.A.nnz(); ++j) if (M.col[j] != S.A.col[j]) pat = false;
        if (!c.check(pat, "spai1:pattern", "the approximate inverse does not have the pattern of A")) return;
        bool ok = true; double worst = 0;
        for (size_t i = 0; i < S.n; ++i) { size_t k = S.A.ptr[i + 1] - S.A.ptr[i]; LZ Bm(S.n, k); LZV m(k);
            for (size_t q = 0; q < k; ++q) { ptrdiff_t cc = S.A.col[S.A.ptr[i] + q]; Bm.col(q) = S.D.row(cc).transpose(); m[q] = vt<V>::get(M.val[S.A.ptr[i] + q], 0, 0); }
            LZV res = Bm * m; res[i] -= ZL(1); LZV g = Bm.adjoint() * res; size_t rows = 0; for (size_t jj = 0; jj < S.n; ++jj) if (Bm.row(jj).cwiseAbs().maxCoeff() > 0) ++rows;
            long double bn = Bm.norm(), bd = 20.0L * rows * k * U64 * bn * (bn * m.norm() + 1), gn = g.norm(); if (!(gn <= bd)) ok = false; worst = std::max(worst, (double)(gn / bd)); }
        c.check(ok, "spai1:least-squares", "a row of M is not the least-squares minimiser of |e_i^T - m^T A| on the pattern of A (normal-equation residual)", J().n("excess", worst)); vf::obs_max("spai1_gradient_over_bound", worst);
        Ref ref; ref.N = dense_of_crs<V>(M); ref.E = norminf(ref.N); check_sweep<V>(c, "spai1", S, rel, PRE, ref, r); check_sweep<V>(c, "spai1", S, rel, POST, ref, r); check_sweep<V>(c, "spai1", S, rel, APPLY, ref, r, 1);
    } catch (const std::exception &e) { c.check(false, "spai1:exception", e.what()); }
}

//---------------------------------------------------------------------------
// Chebyshev: error propagation  e -> T_k((dI - A)/c) / T_k(d/c) e  (A := D^-1 A when scaled), k = degree,
// [lo, hi] from Gershgorin (recomputed here) or read back through the accessor for the power method.
//---------------------------------------------------------------------------
template <class V> void check_chebyshev(Chk &c, const Sys<V> &S, Rng &r, unsigned degree, bool scale, int power_iters, float higher, float lower) {
    typedef backend::builtin<V> B; typedef relaxation::chebyshev<B> R; typename R::params p; p.degree = degree; p.scale = scale; p.power_iters = power_iters; p.higher = higher; p.lower = lower; typename B::params bp; const int b = vt<V>::bs;
    try { R rel(*S.Am, p, bp);
        if (S.meta.integer) { check_fixed_point<V>(c, "chebyshev", S, rel, r, 0); return; }
        long double cc = verif::access::c(rel), dd = verif::access::d(rel);
        LZ As = S.D; if (scale) { LZ t = diag_part(S, true) * S.D; As = t; }
        if (power_iters == 0) {   // Gershgorin with the value type's norm: max_i |a_ii^-1| sum_j |a_ij|
            long double hi = 0; for (size_t i = 0; i < S.n; ++i) { long double s = 0; for (auto j = S.A.ptr[i]; j < S.A.ptr[i + 1]; ++j) { LZ blk = S.D.block(i * b, S.A.col[j] * b, b, b); s += blk.norm(); } if (scale) { LZ di = inverse(LZ(S.D.block(i * b, i * b, b, b))); s *= di.norm(); } hi = std::max(hi, s); }
            long double lo = hi * (long double)lower; hi *= (long double)higher; long double dref = (hi + lo) / 2, cref = (hi - lo) / 2, tol = 8 * (S.maxrow + 8) * b * b * U64 * hi;
            c.check(fabsl(dd - dref) <= tol && fabsl(cc - cref) <= tol, "chebyshev:bounds", "ellipse centre / semi-axis differ from the Gershgorin bounds [hi*lower, hi*higher]", J().n("d", (double)dd).n("d_ref", (double)dref).n("c", (double)cc).n("c_ref", (double)cref).bl("scale", scale));
            cc = cref; dd = dref;
        } else {
            // Power method: the documented rule is hi = spectral_radius<scale>(A, power_iters) * higher, lo = that estimate * lower.
            // The harness calls the documented estimator itself.  It is seeded per thread and reduced under `omp critical`, so
            // the comparison is made in single-threaded processes only (there the two calls are the same arithmetic: 4u).
            c.check(std::isfinite((double)cc) && std::isfinite((double)dd) && dd > 0 && cc >= 0, "chebyshev:bounds-power:non-finite", "ellipse centre / semi-axis are not finite positive numbers", J().n("d", (double)dd).n("c", (double)cc));
            double est = scale ? backend::spectral_radius<true>(*S.Am, power_iters) : backend::spectral_radius<false>(*S.Am, power_iters);
            if (omp_get_max_threads() == 1) {
                double lo = est * lower, hi = est * higher, dref = 0.5 * (hi + lo), cref = 0.5 * (hi - lo); long double tol = 4 * U64 * std::fabs(hi);
                c.check(fabsl(dd - dref) <= tol && fabsl(cc - cref) <= tol, scale ? "chebyshev:bounds-power:scaled" : "chebyshev:bounds-power:unscaled",
                        "the ellipse is not [est*lower, est*higher] for est = spectral_radius<scale>(A, power_iters), the estimator the parameter selects",
                        J().n("d", (double)dd).n("d_ref", dref).n("c", (double)cc).n("c_ref", cref).n("power_iters", power_iters).bl("scale", scale));
                vf::obs_sum(scale ? "cheb_power_scaled_compared" : "cheb_power_unscaled_compared");
            }
            // any power-method estimate sum_i |(B v)_i v_i| with |v| = 1 is bounded by sigma_max(B) (Cauchy-Schwarz), B = A or D^-1 A
            Eigen::MatrixXcd Bd(S.N, S.N); for (size_t i2 = 0; i2 < S.N; ++i2) for (size_t j2 = 0; j2 < S.N; ++j2) Bd(i2, j2) = std::complex<double>((double)As(i2, j2).real(), (double)As(i2, j2).imag());
            Eigen::JacobiSVD<Eigen::MatrixXcd> svd(Bd); double smax = svd.singularValues()[0];
            c.check_le(dd + cc, (1 + (S.N + 8) * 4 * U64 + 1e-12L) * (long double)higher * smax, scale ? "chebyshev:bounds-power:above-sigma-max:scaled" : "chebyshev:bounds-power:above-sigma-max:unscaled",
                       "upper end of the ellipse exceeds higher * sigma_max although a power-method estimate was requested", J().n("power_iters", power_iters).bl("scale", scale).n("sigma_max", smax));
            c.check(fabsl((dd - cc) - (long double)lower / (long double)higher * (dd + cc)) <= 1e-6L * dd, "chebyshev:bounds-power", "power-method bounds are not of the form [hi*lower, hi*higher]", J().n("d", (double)dd).n("c", (double)cc));
        }
        if (!(cc > 0)) return;    // degenerate ellipse (lower == higher): the three-term form divides by c
        LZ I = LZ::Identity(S.N, S.N); LZ Z = (ZL(dd) * I - As) / ZL(cc); LZ T0 = I, T1 = Z; long double t0 = 1, t1 = dd / cc, growth = 1;
        for (unsigned k = 2; k <= degree; ++k) { LZ T2 = ZL(2) * Z * T1 - T0; T0 = T1; T1 = T2; long double t2 = 2 * (dd / cc) * t1 - t0; t0 = t1; t1 = t2; growth = std::max(growth, norminf(T1) / fabsl(t1)); }
        LZ P = degree == 0 ? I : LZ(T1 / ZL(t1)); if (degree == 1) { LZ t = Z / ZL(dd / cc); P = t; }
        Ref ref; ref.N = (I - P) * inverse(S.D); ref.E = (norminf(ref.N) + 1 / dd) * growth * degree; ref.steps = std::max(1u, degree * degree);
        check_sweep<V>(c, "chebyshev", S, rel, PRE, ref, r); check_sweep<V>(c, "chebyshev", S, rel, POST, ref, r, 1); check_sweep<V>(c, "chebyshev", S, rel, APPLY, ref, r, 1);
    } catch (const std::exception &e) { c.check(false, "chebyshev:exception", e.what()); }
}

//---------------------------------------------------------------------------
// ILU family
//---------------------------------------------------------------------------
typedef std::set<std::pair<int, int>> Pat;
inline Pat pattern_of(const Csr<double> &A) { Pat S; for (size_t i = 0; i < A.n; ++i) for (auto j = A.ptr[i]; j < A.ptr[i + 1]; ++j) S.insert({(int)i, (int)A.col[j]}); return S; }
// documented ILU(k) pattern: level k+1 = level k united with the structural pattern of L_k U_k
inline Pat iluk_pattern(const Pat &S0, int k) { Pat S = S0;
    for (int lev = 0; lev < k; ++lev) { Pat T = S; std::map<int, std::vector<int>> up; for (auto &e : S) if (e.second > e.first) up[e.first].push_back(e.second);
        for (auto &a : S) { int i = a.first, m = a.second; if (m >= i) continue; auto it = up.find(m); if (it == up.end()) continue; for (int j : it->second) T.insert({i, j}); } if (T.size() == S.size()) break; S = T; }
    return S; }
// documented ILUP(k) pattern: boolean power S^(k+1)
inline Pat ilup_pattern(const Pat &S0, int k) { Pat S = S0; std::map<int, std::vector<int>> rows; for (auto &e : S0) rows[e.first].push_back(e.second);
    for (int t = 0; t < k; ++t) { Pat T; for (auto &a : S) for (int j : rows[a.second]) T.insert({a.first, j}); S = T; } return S; }

template <class V> struct Factors { bool ok = false; std::string why; LZ Lp, Up; Pat pat; size_t maxrow = 0; long double kappaD = 1; };
template <class V, class Solve> Factors<V> read_factors(Solve &sol, size_t n) {
    Factors<V> F; const int b = vt<V>::bs; auto &L = verif::access::L(sol); auto &U = verif::access::U(sol); auto &D = verif::access::D(sol);
    if (!L || !U || !D) { F.why = "serial factors not kept"; return F; }
    if (L->nrows != n || U->nrows != n || D->size() != n) { F.why = "factor sizes"; return F; }
    F.Lp = LZ::Identity(n * b, n * b); F.Up = LZ::Zero(n * b, n * b);
    for (size_t i = 0; i < n; ++i) {
        F.maxrow = std::max<size_t>(F.maxrow, (L->ptr[i + 1] - L->ptr[i]) + (U->ptr[i + 1] - U->ptr[i]) + 1);
        for (auto j = L->ptr[i]; j < L->ptr[i + 1]; ++j) { auto cc = L->col[j]; if (cc < 0 || (size_t)cc >= i) { F.why = "L is not strictly lower triangular"; return F; } if (!F.pat.insert({(int)i, (int)cc}).second) { F.why = "duplicate entry in L"; return F; } for (int p = 0; p < b; ++p) for (int q = 0; q < b; ++q) F.Lp(i * b + p, cc * b + q) = vt<V>::get(L->val[j], p, q); }
        for (auto j = U->ptr[i]; j < U->ptr[i + 1]; ++j) { auto cc = U->col[j]; if ((size_t)cc <= i || (size_t)cc >= n) { F.why = "U is not strictly upper triangular"; return F; } if (!F.pat.insert({(int)i, (int)cc}).second) { F.why = "duplicate entry in U"; return F; } for (int p = 0; p < b; ++p) for (int q = 0; q < b; ++q) F.Up(i * b + p, cc * b + q) = vt<V>::get(U->val[j], p, q); }
        LZ di(b, b); for (int p = 0; p < b; ++p) for (int q = 0; q < b; ++q) di(p, q) = vt<V>::get((*D)[i], p, q);
        if (!di.allFinite()) { F.why = "non-finite inverted pivot"; return F; }
        LZ piv = inverse(di); if (!piv.allFinite()) { F.why = "singular inverted pivot"; return F; } F.kappaD = std::max(F.kappaD, norminf(piv) * norminf(di)); F.Up.block(i * b, i * b, b, b) = piv; F.pat.insert({(int)i, (int)i});
    }
    if (!F.Lp.allFinite() || !F.Up.allFinite()) { F.why = "non-finite factor entry"; return F; }
    F.ok = true; return F;
}

enum IluKind { ILU0, ILUK, ILUP, ILUT };
template <class V, int KIND> struct ilu_type;
template <class V> struct ilu_type<V, ILU0> { typedef relaxation::ilu0<backend::builtin<V>> type; static const char *name() { return "ilu0"; } };
template <class V> struct ilu_type<V, ILUK> { typedef relaxation::iluk<backend::builtin<V>> type; static const char *name() { return "iluk"; } };
template <class V> struct ilu_type<V, ILUP> { typedef relaxation::ilup<backend::builtin<V>> type; static const char *name() { return "ilup"; } };
template <class V> struct ilu_type<V, ILUT> { typedef relaxation::ilut<backend::builtin<V>> type; static const char *name() { return "ilut"; } };
template <class R> auto &solver_of(R &r) { return *verif::access::ilu(r); }
template <class Bk> auto &solver_of(relaxation::ilup<Bk> &r) { return *verif::access::ilu(*verif::access::base(r)); }

struct IluCfg { int k = 1; double damping = 1; double p = 2, tau = 1e-2; bool expect_exact = false; };
template <class P> auto set_k(P &p, int k, int) -> decltype(p.k, void()) { p.k = k; }
template <class P> void set_k(P &, int, long) {}
template <class P> auto set_ilut(P &p, double pp, double tau, int) -> decltype(p.tau, void()) { p.p = pp; p.tau = tau; }
template <class P> void set_ilut(P &, double, double, long) {}

template <class V, int KIND> void check_ilu(Chk &c, const Sys<V> &S, Rng &r, const IluCfg &cfg) {
    typedef backend::builtin<V> B; typedef typename ilu_type<V, KIND>::type R; typename B::params bp; const int b = vt<V>::bs;
    std::string name = ilu_type<V, KIND>::name(); std::string tag = name + (KIND == ILUK || KIND == ILUP ? (cfg.k == 0 ? "(k=0)" : "(k>=1)") : "");
    auto params = [&](bool serial) { typename R::params p; p.damping = cfg.damping; p.solve.serial = serial; set_k(p, cfg.k, 0); set_ilut(p, cfg.p, cfg.tau, 0); return p; };
    try {
        R ser(*S.Am, params(true), bp);
        if (S.meta.integer) { check_fixed_point<V>(c, name, S, ser, r, 0); R par(*S.Am, params(false), bp); check_fixed_point<V>(c, name + "(level-scheduled)", S, par, r, 0); return; }
        Factors<V> F = read_factors<V>(solver_of(ser), S.n);
        if (!c.check(F.ok, tag + ":factors-malformed", "factors read through the accessor are malformed: " + F.why)) return;
        LZ LU = F.Lp * F.Up; LD aLU = LD(absm(F.Lp) * absm(F.Up)); long double Kf = 16.0L * (F.maxrow * b + 4) * (1 + F.kappaD) * U64;
        Pat S0 = pattern_of(S.meta.A), expect; bool full = false;
        if (KIND == ILU0) expect = S0; else if (KIND == ILUK) expect = iluk_pattern(S0, cfg.k); else if (KIND == ILUP) expect = ilup_pattern(S0, cfg.k);
        if (cfg.expect_exact) full = true;
        if (KIND != ILUT) {
            bool sub = std::includes(expect.begin(), expect.end(), F.pat.begin(), F.pat.end());
            c.check(sub, tag + ":pattern-outside-documented", "the factors store an entry outside the documented pattern", J().n("stored", F.pat.size()).n("documented", expect.size()).n("k", cfg.k));
            if (KIND == ILUK) c.check(F.pat == expect, tag + ":pattern-differs", "the ILU(k) pattern is not the documented level-of-fill pattern", J().n("stored", F.pat.size()).n("documented", expect.size()).n("k", cfg.k));
            // (LU)_ij = a_ij on the documented pattern (entries the code dropped as exact zeros count as zeros)
            bool ok = true; double worst = 0; int wi = -1, wj = -1;
            for (auto &e : expect) for (int p = 0; p < b; ++p) for (int q = 0; q < b; ++q) { int I = e.first * b + p, Jc = e.second * b + q; long double d = std::abs(LU(I, Jc) - S.D(I, Jc)), bd = Kf * (aLU(I, Jc) + std::abs(S.D(I, Jc)));
                if (!(d <= bd)) { ok = false; if (wi < 0) { wi = e.first; wj = e.second; } } if (bd > 0) worst = std::max(worst, (double)(d / bd)); else if (d > 0) { ok = false; worst = 1e300; } }
            c.check(ok, tag + ":LU-ne-A-on-pattern", "(LU)_ij != a_ij on the admitted pattern", J().n("excess", worst).n("row", wi).n("col", wj).n("k", cfg.k)); vf::obs_max("ilu_LU_minus_A_over_bound_" + name, worst);
        }
        if (full) { long double d = norminf(LZ(LU - S.D)), bd = Kf * norminf(aLU) * S.N; c.check_le(d, bd, tag + ":not-exact-when-factors-fit", "LU != A although the exact factors fit into the admitted pattern", J().s("family", S.meta.family).n("k", cfg.k).n("p", cfg.p).n("tau", cfg.tau)); }
        // apply == dense (LU)^-1 ; sweeps == x + damping (LU)^-1 (f - A x); serial and level-scheduled solves against the same reference
        LZ Li = inverse(F.Lp), Ui = inverse(F.Up); Ref ap; ap.N = Ui * Li; ap.steps = 2;
        ap.E = norminf(LD(absm(Ui) * absm(F.Up) * absm(Ui) * absm(Li))) + norminf(LD(absm(Ui) * absm(Li) * absm(F.Lp) * absm(Li)));
        Ref sw = ap; sw.N = ZL(cfg.damping) * ap.N; sw.E = ap.E * std::max(1.0, std::fabs(cfg.damping));
        check_sweep<V>(c, name + "(serial-solve)", S, ser, APPLY, ap, r, 1); check_sweep<V>(c, name + "(serial-solve)", S, ser, PRE, sw, r, 1); check_sweep<V>(c, name + "(serial-solve)", S, ser, POST, sw, r, 1);
        R par(*S.Am, params(false), bp);
        check_sweep<V>(c, name + "(level-scheduled)", S, par, APPLY, ap, r, 2); check_sweep<V>(c, name + "(level-scheduled)", S, par, PRE, sw, r, 1); check_sweep<V>(c, name + "(level-scheduled)", S, par, POST, sw, r, 1);
        vf::obs_sum("ilu_level_scheduled_objects");
        if (full) { LZ Ai = inverse(S.D); Ref ex; ex.N = Ai; ex.steps = 2; ex.E = ap.E + norminf(LD(absm(Ai) * aLU * absm(Ai))) * F.maxrow;
            check_sweep<V>(c, tag + ":exact-inverse", S, par, APPLY, ex, r, 1); }
    } catch (const std::exception &e) { c.check(false, tag + ":exception", e.what()); }
}

// ILUT on no-fill matrices: exact when nothing was dropped (tau = 0, or a posteriori: the factors kept every entry of A)
template <class V> bool ilut_kept_everything(const Sys<V> &S, double p, double tau) {
    typedef backend::builtin<V> B; typedef relaxation::ilut<B> R; typename R::params prm; prm.p = p; prm.tau = tau; prm.solve.serial = true; typename B::params bp;
    R rel(*S.Am, prm, bp); auto &sol = solver_of(rel); auto &L = verif::access::L(sol); auto &U = verif::access::U(sol); if (!L || !U) return false;
    return (size_t)(L->ptr[S.n] + U->ptr[S.n]) + S.n == S.A.nnz();
}

//---------------------------------------------------------------------------
// drivers
//---------------------------------------------------------------------------
template <class V> void run_all_relaxations(Chk &c, const Sys<V> &S, Rng &r, bool thorough_params) {
    bool no_fill = S.meta.family == "tridiagonal" || S.meta.family == "arrow";
    check_jacobi<V>(c, S, r, thorough_params ? r.pick(std::vector<double>{0.72, 1.0, 0.5, 1.3}) : 0.72);
    check_spai0<V>(c, S, r);
    check_gauss_seidel<V>(c, S, r, true); check_gauss_seidel<V>(c, S, r, false);
    check_chebyshev<V>(c, S, r, thorough_params ? (unsigned)r.range(1, 7) : 5, false, 0, thorough_params ? r.pick(std::vector<float>{1.0f, 1.1f}) : 1.0f, thorough_params ? r.pick(std::vector<float>{1.0f / 30, 0.1f, 0.3f}) : 1.0f / 30);
    check_chebyshev<V>(c, S, r, thorough_params ? (unsigned)r.range(1, 6) : 3, true, 0, 1.0f, 1.0f / 30);
    // power-method bounds: both scalings for every system, power_iters cycling through {1, 2, 5, 10}
    static const int PI[4] = {1, 2, 5, 10}; int pi0 = (int)r.range(0, 3);
    check_chebyshev<V>(c, S, r, thorough_params ? (unsigned)r.range(1, 5) : 4, true, PI[pi0], thorough_params ? r.pick(std::vector<float>{1.0f, 1.1f}) : 1.0f, thorough_params ? r.pick(std::vector<float>{1.0f / 30, 0.2f}) : 1.0f / 30);
    check_chebyshev<V>(c, S, r, 3, false, PI[(pi0 + 1) % 4], 1.0f, 1.0f / 30);
    IluCfg c0; c0.k = 0; c0.damping = thorough_params ? r.pick(std::vector<double>{1.0, 0.8, 1.2}) : 1.0; c0.expect_exact = no_fill;
    check_ilu<V, ILU0>(c, S, r, c0);
    for (int k : {0, 1, 2}) { IluCfg ck = c0; ck.k = k; check_ilu<V, ILUK>(c, S, r, ck); if (k < 2 || S.n <= 30) check_ilu<V, ILUP>(c, S, r, ck); }
    if (S.n <= 12) { IluCfg cn = c0; cn.k = (int)S.n; cn.expect_exact = true; check_ilu<V, ILUK>(c, S, r, cn); }
    if (thorough_params) { IluCfg ck = c0; ck.k = 3; check_ilu<V, ILUK>(c, S, r, ck); }
    IluCfg ct = c0; ct.tau = 0; ct.p = thorough_params ? r.pick(std::vector<double>{1.0, 2.0, 3.5}) : 2.0; ct.expect_exact = no_fill; check_ilu<V, ILUT>(c, S, r, ct);
    IluCfg cd = c0; cd.tau = 1e-2; cd.p = 2; cd.expect_exact = !S.meta.integer && no_fill && ilut_kept_everything(S, 2, 1e-2); check_ilu<V, ILUT>(c, S, r, cd);
}
template <class V> void run_spai1(Chk &c, const Sys<V> &S, Rng &r) { check_spai1<V>(c, S, r); }

template <class V> void sub_relax(const std::string &sub, long nq, long nt) {
    if (!vf::sub_enabled(sub)) return;
    long N = vf::tier(nq, nt);
    for (long idx = 0; idx < N; ++idx) {
        if (!vf::selected(sub, idx)) continue;
        Rng r(vf::case_seed(sub, idx)); bool integer = idx % 3 == 2; Sys<V> S = make_system<V>(r, integer, vf::thorough() && idx % 5 == 0 ? 60 : 36);
        Case cs(sub, idx, S.desc().s("oracle", integer ? "fixed-point" : "definition")); Chk c(cs);
        run_all_relaxations<V>(c, S, r, vf::thorough() || idx % 2 == 1);
        if constexpr (vt<V>::bs == 1) check_spai1<V>(c, S, r);    // spai1 is not available for block values (relaxation_is_supported)
        cs.nontrivial();
        vf::sample(sub, S.desc());
    }
    vf::obs_add("value_types", vt<V>::name());
}
} // namespace c06
