// cond.hpp -- 2-norm bounds of A and A^-1 for the C01 floors (h-solvers).  Needs Eigen (dense SVD, SparseLU).
#pragma once
#include "dense.hpp"
#include "krylov.hpp"
#include <Eigen/SparseLU>

namespace vf {
//---------------------------------------------------------------------------
// conditioning of the call: exact 2-norms for n <= 400, rigorous upper bounds for larger nonsingular M-matrices
// (A^-1 >= 0  =>  ||A^-1||_inf = ||A^-1 1||_inf, ||A^-1||_1 = ||A^-T 1||_inf, ||.||_2 <= sqrt(||.||_1 ||.||_inf)).
//---------------------------------------------------------------------------
inline Cond cond_of(const Csr<double> &A) {
    Cond K;
    if (A.n <= 400) {
        Eigen::MatrixXd D = to_dense(A).cast<double>(); Eigen::JacobiSVD<Eigen::MatrixXd> svd(D);
        Eigen::VectorXd s = svd.singularValues(); K.normA = s[0]; K.normAinv = 1.0 / s[s.size() - 1]; K.how = "dense-svd";
        if (!(s[s.size() - 1] > 0) || !std::isfinite(K.normAinv)) { fprintf(stderr, "generator produced a singular matrix\n"); exit(3); }
        return K;
    }
    typedef Eigen::SparseMatrix<double, Eigen::ColMajor, int> SM; std::vector<Eigen::Triplet<double>> t; t.reserve(A.nnz());
    std::vector<double> rs(A.n, 0), csum(A.m, 0);
    for (size_t i = 0; i < A.n; ++i) for (ptrdiff_t j = A.ptr[i]; j < A.ptr[i + 1]; ++j) { t.emplace_back((int)i, (int)A.col[j], A.val[j]); rs[i] += std::fabs(A.val[j]); csum[A.col[j]] += std::fabs(A.val[j]);
        if ((size_t)A.col[j] != i && A.val[j] > 0) { fprintf(stderr, "cond_of: positive off-diagonal, M-matrix bound not applicable\n"); exit(3); } }
    SM M(A.n, A.n); M.setFromTriplets(t.begin(), t.end()); M.makeCompressed();
    Eigen::SparseLU<SM> lu; lu.compute(M); if (lu.info() != Eigen::Success) { fprintf(stderr, "cond_of: SparseLU failed\n"); exit(3); }
    Eigen::VectorXd one = Eigen::VectorXd::Ones(A.n); Eigen::VectorXd y = lu.solve(one);
    SM Mt = M.transpose(); Eigen::SparseLU<SM> lut; lut.compute(Mt); Eigen::VectorXd z = lut.solve(one);
    double ymin = y.minCoeff(), zmin = z.minCoeff();
    if (!(ymin > 0) || !(zmin > 0)) { fprintf(stderr, "cond_of: A^-1 1 not positive (%g, %g): not an M-matrix\n", ymin, zmin); exit(3); }
    // validate the solves (harness-side consistency): ||A y - 1||_inf small
    { Eigen::VectorXd rr = M * y - one; if (!(rr.cwiseAbs().maxCoeff() < 1e-6)) { fprintf(stderr, "cond_of: inaccurate reference solve\n"); exit(3); } }
    K.normAinv = std::sqrt(y.maxCoeff() * z.maxCoeff()) * 1.01;
    K.normA = std::sqrt(*std::max_element(rs.begin(), rs.end()) * *std::max_element(csum.begin(), csum.end()));
    K.how = "m-matrix-bound"; return K;
}


} // namespace vf
