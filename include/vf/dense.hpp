// dense.hpp -- long-double dense reference algebra (Eigen).  Harness rule: never
// bind an Eigen expression to `auto`.
#pragma once
#include "gen.hpp"
#include <Eigen/Dense>

namespace vf {
typedef Eigen::Matrix<long double, Eigen::Dynamic, Eigen::Dynamic> LD;
typedef Eigen::Matrix<long double, Eigen::Dynamic, 1> LV;
typedef Eigen::Matrix<std::complex<long double>, Eigen::Dynamic, Eigen::Dynamic> LZ;
typedef Eigen::Matrix<std::complex<long double>, Eigen::Dynamic, 1> LZV;
typedef Eigen::MatrixXd DM;

inline LD to_dense(const Csr<double> &A) { LD D = LD::Zero(A.n, A.m); for (size_t i = 0; i < A.n; ++i) for (ptrdiff_t j = A.ptr[i]; j < A.ptr[i + 1]; ++j) D(i, A.col[j]) += A.val[j]; return D; }
inline LZ to_dense(const Csr<std::complex<double>> &A) { LZ D = LZ::Zero(A.n, A.m); for (size_t i = 0; i < A.n; ++i) for (ptrdiff_t j = A.ptr[i]; j < A.ptr[i + 1]; ++j) D(i, A.col[j]) += std::complex<long double>(A.val[j].real(), A.val[j].imag()); return D; }

// amgcl-style crs (any struct with nrows, ncols, ptr, col, val of scalar double)
template <class M> LD amg_dense(const M &A) {
    LD D = LD::Zero(A.nrows, A.ncols);
    for (size_t i = 0; i < A.nrows; ++i) for (auto j = A.ptr[i]; j < A.ptr[i + 1]; ++j) D(i, A.col[j]) += (long double)A.val[j];
    return D;
}
template <class M> Csr<double> amg_csr(const M &A) {
    Csr<double> C(A.nrows, A.ncols); C.ptr.assign(A.ptr, A.ptr + A.nrows + 1); C.col.assign(A.col, A.col + A.ptr[A.nrows]); C.val.assign(A.val, A.val + A.ptr[A.nrows]); return C;
}
inline LV to_lv(const std::vector<double> &v) { LV r(v.size()); for (size_t i = 0; i < v.size(); ++i) r[i] = v[i]; return r; }
inline long double maxabs(const LD &M) { return M.size() ? M.cwiseAbs().maxCoeff() : 0.0L; }

// 2-norm condition number via SVD (double precision is enough)
inline double cond2(const LD &A) {
    Eigen::MatrixXd D = A.cast<double>(); Eigen::JacobiSVD<Eigen::MatrixXd> svd(D);
    Eigen::VectorXd s = svd.singularValues(); return s[s.size() - 1] > 0 ? s[0] / s[s.size() - 1] : std::numeric_limits<double>::infinity();
}
inline double sigma_max(const LD &A) { Eigen::MatrixXd D = A.cast<double>(); Eigen::JacobiSVD<Eigen::MatrixXd> svd(D); return svd.singularValues()[0]; }
inline double spectral_radius(const LD &A) { Eigen::MatrixXd D = A.cast<double>(); Eigen::EigenSolver<Eigen::MatrixXd> es(D, false); double r = 0; for (int i = 0; i < es.eigenvalues().size(); ++i) r = std::max(r, std::abs(es.eigenvalues()[i])); return r; }

// Extract the dense matrix of a linear operator given as apply(f, x) on std::vector<double>
template <class F> LD extract_operator(size_t n, F apply) {
    LD B(n, n); std::vector<double> e(n, 0.0), x(n, 0.0);
    for (size_t j = 0; j < n; ++j) { e[j] = 1; std::fill(x.begin(), x.end(), 0.0); apply(e, x); e[j] = 0; for (size_t i = 0; i < n; ++i) B(i, j) = x[i]; }
    return B;
}
// bitwise digest of a dense long-double matrix that came from doubles
inline uint64_t digest_ld(const LD &M) { Digest d; for (int j = 0; j < M.cols(); ++j) for (int i = 0; i < M.rows(); ++i) { double v = (double)M(i, j); d.pod(v); } return d.h; }
} // namespace vf
