// gen.hpp -- deterministic input families (DESIGN.md section 4).  No amgcl dependency.
#pragma once
#include "vf.hpp"
#include <algorithm>
#include <numeric>
#include <tuple>
#include <cstddef>

namespace vf {

template <class V = double>
struct Csr {
    size_t n = 0, m = 0;                 // rows, cols
    std::vector<ptrdiff_t> ptr, col;
    std::vector<V> val;
    size_t nnz() const { return col.size(); }
    Csr() : ptr(1, 0) {}
    Csr(size_t n_, size_t m_) : n(n_), m(m_), ptr(1, 0) {}
    void push(ptrdiff_t c, V v) { col.push_back(c); val.push_back(v); }
    void end_row() { ptr.push_back((ptrdiff_t)col.size()); }
    // amgcl tuple adapter view
    std::tuple<size_t, std::vector<ptrdiff_t>&, std::vector<ptrdiff_t>&, std::vector<V>&> tie() { return std::tie(n, ptr, col, val); }
    std::tuple<size_t, const std::vector<ptrdiff_t>&, const std::vector<ptrdiff_t>&, const std::vector<V>&> tie() const { return std::tie(n, ptr, col, val); }
    J desc(const std::string &family) const { return J().s("family", family).n("n", n).n("m", m).n("nnz", nnz()); }
    uint64_t digest() const { Digest d; d.pod(n); d.pod(m); d.vec(ptr); d.vec(col); d.vec(val); return d.h; }
};

// Build from triplets (duplicates summed), sorted rows.
template <class V>
Csr<V> from_triplets(size_t n, size_t m, std::vector<std::tuple<ptrdiff_t, ptrdiff_t, V>> t, bool drop_zeros = false) {
    std::sort(t.begin(), t.end(), [](const auto &a, const auto &b) { return std::get<0>(a) != std::get<0>(b) ? std::get<0>(a) < std::get<0>(b) : std::get<1>(a) < std::get<1>(b); });
    Csr<V> A(n, m); size_t k = 0;
    for (size_t i = 0; i < n; ++i) {
        while (k < t.size() && (size_t)std::get<0>(t[k]) == i) {
            ptrdiff_t c = std::get<1>(t[k]); V v = V();
            while (k < t.size() && (size_t)std::get<0>(t[k]) == i && std::get<1>(t[k]) == c) { v += std::get<2>(t[k]); ++k; }
            if (!drop_zeros || v != V()) A.push(c, v);
        }
        A.end_row();
    }
    return A;
}

// Random permutation of entries within each row (unsorted but duplicate-free rows).
template <class V> Csr<V> shuffle_rows(const Csr<V> &A, Rng &r, bool reverse = false) {
    Csr<V> B = A;
    for (size_t i = 0; i < A.n; ++i) {
        ptrdiff_t b = A.ptr[i], e = A.ptr[i + 1];
        std::vector<ptrdiff_t> p(e - b); std::iota(p.begin(), p.end(), b);
        if (reverse) std::reverse(p.begin(), p.end()); else r.shuffle(p);
        for (ptrdiff_t j = b; j < e; ++j) { B.col[j] = A.col[p[j - b]]; B.val[j] = A.val[p[j - b]]; }
    }
    return B;
}

template <class V> Csr<V> transpose(const Csr<V> &A) {
    std::vector<std::tuple<ptrdiff_t, ptrdiff_t, V>> t;
    for (size_t i = 0; i < A.n; ++i) for (ptrdiff_t j = A.ptr[i]; j < A.ptr[i + 1]; ++j) t.emplace_back(A.col[j], (ptrdiff_t)i, A.val[j]);
    return from_triplets<V>(A.m, A.n, t);
}

// y = A x in long double
inline std::vector<long double> spmv_ld(const Csr<double> &A, const std::vector<double> &x) {
    std::vector<long double> y(A.n, 0);
    for (size_t i = 0; i < A.n; ++i) { long double s = 0; for (ptrdiff_t j = A.ptr[i]; j < A.ptr[i + 1]; ++j) s += (long double)A.val[j] * x[A.col[j]]; y[i] = s; }
    return y;
}
// true relative residual ||f - A x|| / ||f|| in long double
inline double true_relres(const Csr<double> &A, const std::vector<double> &f, const std::vector<double> &x) {
    auto y = spmv_ld(A, x); long double s = 0, nf = 0;
    for (size_t i = 0; i < A.n; ++i) { long double r = (long double)f[i] - y[i]; s += r * r; nf += (long double)f[i] * f[i]; }
    return (double)(std::sqrt(s) / std::sqrt(nf));
}
inline double norm2(const std::vector<double> &v) { long double s = 0; for (double x : v) s += (long double)x * x; return (double)std::sqrt(s); }

//---------------------------------------------------------------------------
// G1: grid diffusion.  Variable coefficient 5-point (2D) / 7-point (3D) finite
// volume discretisation with Dirichlet boundary: SPD irreducibly diagonally
// dominant M-matrix.  contrast: ratio of largest to smallest cell coefficient;
// aniso: multiplies the y (and z) couplings.
//---------------------------------------------------------------------------
struct GridSpec { int nx = 8, ny = 8, nz = 1; double contrast = 1, aniso = 1; bool nine = false; double shift = 0; };

inline Csr<double> grid_diffusion(const GridSpec &g, Rng &r) {
    int nx = g.nx, ny = g.ny, nz = g.nz; size_t n = (size_t)nx * ny * nz;
    // face coefficients, log-uniform in [1, contrast]
    auto coef = [&](double scale) { return scale * (g.contrast > 1 ? r.logu(1.0, g.contrast) : 1.0); };
    std::vector<double> kx((size_t)(nx + 1) * ny * nz), ky((size_t)nx * (ny + 1) * nz), kz((size_t)nx * ny * (nz + 1));
    for (auto &k : kx) k = coef(1.0);
    for (auto &k : ky) k = coef(g.aniso);
    for (auto &k : kz) k = coef(g.aniso);
    std::vector<double> kd; // diagonal couplings for the 9-point variant (2D only)
    if (g.nine && nz == 1) { kd.resize((size_t)(nx + 1) * (ny + 1) * 2); for (auto &k : kd) k = coef(0.25 * std::min(1.0, g.aniso)); }
    Csr<double> A(n, n);
    auto id = [&](int i, int j, int k) { return (ptrdiff_t)(((size_t)k * ny + j) * nx + i); };
    for (int k = 0; k < nz; ++k) for (int j = 0; j < ny; ++j) for (int i = 0; i < nx; ++i) {
        double w = kx[((size_t)k * ny + j) * (nx + 1) + i], e = kx[((size_t)k * ny + j) * (nx + 1) + i + 1];
        double s = ky[((size_t)k * (ny + 1) + j) * nx + i], nn = ky[((size_t)k * (ny + 1) + j + 1) * nx + i];
        double b = nz > 1 ? kz[((size_t)k * ny + j) * nx + i] : 0, t = nz > 1 ? kz[((size_t)(k + 1) * ny + j) * nx + i] : 0;
        double dsw = 0, dse = 0, dnw = 0, dne = 0;
        if (!kd.empty()) { // corner (i,j) .. (i+1,j+1); two diagonals per corner
            dsw = kd[((size_t)j * (nx + 1) + i) * 2]; dse = kd[((size_t)j * (nx + 1) + i + 1) * 2 + 1];
            dnw = kd[((size_t)(j + 1) * (nx + 1) + i) * 2 + 1]; dne = kd[((size_t)(j + 1) * (nx + 1) + i + 1) * 2];
        }
        double d = w + e + s + nn + b + t + dsw + dse + dnw + dne + g.shift;
        if (k > 0) A.push(id(i, j, k - 1), -b);
        if (j > 0) { if (!kd.empty() && i > 0) A.push(id(i - 1, j - 1, k), -dsw); A.push(id(i, j - 1, k), -s); if (!kd.empty() && i + 1 < nx) A.push(id(i + 1, j - 1, k), -dse); }
        if (i > 0) A.push(id(i - 1, j, k), -w);
        A.push(id(i, j, k), d);
        if (i + 1 < nx) A.push(id(i + 1, j, k), -e);
        if (j + 1 < ny) { if (!kd.empty() && i > 0) A.push(id(i - 1, j + 1, k), -dnw); A.push(id(i, j + 1, k), -nn); if (!kd.empty() && i + 1 < nx) A.push(id(i + 1, j + 1, k), -dne); }
        if (k + 1 < nz) A.push(id(i, j, k + 1), -t);
        A.end_row();
    }
    return A;
}
// The "model problem" sub-family of G1 (contrast <= 10, anisotropy >= 0.1).
inline Csr<double> model_problem(Rng &r, int nmin, int nmax, GridSpec *out = nullptr) {
    GridSpec g; bool three = r.coin(0.3);
    double n = r.uni(nmin, nmax);
    if (three) { int s = std::max(3, (int)std::cbrt(n)); g.nx = s + r.range(0, 2); g.ny = s; g.nz = std::max(3, s - (int)r.range(0, 2)); }
    else { int s = std::max(4, (int)std::sqrt(n)); g.nx = s + r.range(0, 5); g.ny = std::max(4, s - (int)r.range(0, 3)); g.nz = 1; g.nine = r.coin(0.25); }
    g.contrast = r.coin(0.3) ? 1.0 : r.logu(1.0, 10.0); g.aniso = r.coin(0.5) ? 1.0 : r.logu(0.1, 1.0);
    if (out) *out = g; return grid_diffusion(g, r);
}

//---------------------------------------------------------------------------
// G2: graph Laplacians with a non-negative diagonal shift (positive on at least
// one vertex per component) -- SPD M-matrices on irregular graphs.
//---------------------------------------------------------------------------
inline Csr<double> graph_laplacian(size_t n, double avgdeg, Rng &r, bool geometric = false, bool shift_all = false) {
    std::vector<std::tuple<ptrdiff_t, ptrdiff_t, double>> t; std::vector<std::vector<size_t>> adj(n);
    auto edge = [&](size_t a, size_t b, double w) { if (a == b) return; for (size_t x : adj[a]) if (x == b) return; adj[a].push_back(b); adj[b].push_back(a);
        t.emplace_back(a, b, -w); t.emplace_back(b, a, -w); t.emplace_back(a, a, w); t.emplace_back(b, b, w); };
    if (geometric) {
        std::vector<double> px(n), py(n); for (size_t i = 0; i < n; ++i) { px[i] = r.uni(); py[i] = r.uni(); }
        double rad = std::sqrt(avgdeg / (3.1415926 * n));
        for (size_t i = 0; i < n; ++i) for (size_t j = i + 1; j < n; ++j) { double dx = px[i] - px[j], dy = py[i] - py[j]; if (dx * dx + dy * dy < rad * rad) edge(i, j, r.uni(0.2, 2.0)); }
    } else {
        size_t ne = (size_t)(avgdeg * n / 2);
        for (size_t k = 0; k < ne; ++k) edge(r.next() % n, r.next() % n, r.uni(0.2, 2.0));
    }
    // shift: one vertex per component (found by BFS), optionally all
    std::vector<int> comp(n, -1); int nc = 0;
    for (size_t s = 0; s < n; ++s) if (comp[s] < 0) { std::vector<size_t> q(1, s); comp[s] = nc; for (size_t h = 0; h < q.size(); ++h) for (size_t x : adj[q[h]]) if (comp[x] < 0) { comp[x] = nc; q.push_back(x); }
        t.emplace_back(s, s, r.uni(0.5, 1.5)); ++nc; }
    if (shift_all) for (size_t i = 0; i < n; ++i) t.emplace_back(i, i, r.uni(0.01, 0.2));
    for (size_t i = 0; i < n; ++i) t.emplace_back(i, i, 0.0); // make sure the diagonal exists
    return from_triplets<double>(n, n, t);
}

//---------------------------------------------------------------------------
// G3: convection-diffusion, first order upwind, on nx x ny grid; optional
// structural non-symmetry (drops the downwind partner where its value is small).
//---------------------------------------------------------------------------
inline Csr<double> convdiff(int nx, int ny, double peclet, Rng &r, bool struct_nonsym = false) {
    size_t n = (size_t)nx * ny; Csr<double> A(n, n); double th = r.uni(0, 6.2831853), bx = peclet * std::cos(th), by = peclet * std::sin(th);
    for (int j = 0; j < ny; ++j) for (int i = 0; i < nx; ++i) {
        double w = 1 + std::max(bx, 0.0), e = 1 + std::max(-bx, 0.0), s = 1 + std::max(by, 0.0), nn = 1 + std::max(-by, 0.0);
        double d = w + e + s + nn; ptrdiff_t id = (ptrdiff_t)j * nx + i;
        bool dw = struct_nonsym && r.coin(0.3), de = struct_nonsym && !dw && r.coin(0.3), ds = struct_nonsym && r.coin(0.3), dn = struct_nonsym && !ds && r.coin(0.3);
        if (j > 0 && !ds) A.push(id - nx, -s);
        if (i > 0 && !dw) A.push(id - 1, -w);
        A.push(id, d);
        if (i + 1 < nx && !de) A.push(id + 1, -e);
        if (j + 1 < ny && !dn) A.push(id + nx, -nn);
        A.end_row();
    }
    return A;
}

//---------------------------------------------------------------------------
// G4: complex.  Hermitian positive definite (|offdiag| of a real M-matrix with
// unit-modulus phases that form a gauge: a_ij -> a_ij e^{i(t_i - t_j)}), and
// complex shifted  A + i sigma I.
//---------------------------------------------------------------------------
inline Csr<std::complex<double>> complex_hermitian(const Csr<double> &A, Rng &r) {
    Csr<std::complex<double>> C(A.n, A.m); C.ptr = A.ptr; C.col = A.col; C.val.resize(A.nnz());
    std::vector<double> t(A.n); for (auto &x : t) x = r.uni(0, 6.2831853);
    for (size_t i = 0; i < A.n; ++i) for (ptrdiff_t j = A.ptr[i]; j < A.ptr[i + 1]; ++j) C.val[j] = A.val[j] * std::polar(1.0, t[i] - t[A.col[j]]);
    return C;
}
inline Csr<std::complex<double>> complex_shifted(const Csr<double> &A, double sigma) {
    Csr<std::complex<double>> C(A.n, A.m); C.ptr = A.ptr; C.col = A.col; C.val.resize(A.nnz());
    for (size_t i = 0; i < A.n; ++i) for (ptrdiff_t j = A.ptr[i]; j < A.ptr[i + 1]; ++j) C.val[j] = std::complex<double>(A.val[j], A.col[j] == (ptrdiff_t)i ? sigma : 0.0);
    return C;
}

//---------------------------------------------------------------------------
// G5: block.  Kronecker product A (x) C with C dense b x b (row-major vector).
//---------------------------------------------------------------------------
inline Csr<double> kron(const Csr<double> &A, const std::vector<double> &C, int b) {
    Csr<double> K(A.n * b, A.m * b);
    for (size_t i = 0; i < A.n; ++i) for (int p = 0; p < b; ++p) {
        for (ptrdiff_t j = A.ptr[i]; j < A.ptr[i + 1]; ++j) for (int q = 0; q < b; ++q) { double v = A.val[j] * C[p * b + q]; if (v != 0) K.push(A.col[j] * b + q, v); }
        K.end_row();
    }
    return K;
}
inline std::vector<double> identity_block(int b) { std::vector<double> C(b * b, 0.0); for (int i = 0; i < b; ++i) C[i * b + i] = 1; return C; }
// random SPD b x b block (diagonally dominant, symmetric)
inline std::vector<double> spd_block(int b, Rng &r) {
    std::vector<double> C(b * b, 0.0);
    for (int i = 0; i < b; ++i) for (int j = i + 1; j < b; ++j) C[i * b + j] = C[j * b + i] = r.uni(-0.3, 0.3);
    for (int i = 0; i < b; ++i) { double s = 0; for (int j = 0; j < b; ++j) if (j != i) s += std::fabs(C[i * b + j]); C[i * b + i] = s + r.uni(0.7, 1.5); }
    return C;
}
// Remove random off-diagonal-block scalar entries (structurally incomplete blocks); keeps the scalar diagonal.
inline Csr<double> punch_blocks(const Csr<double> &A, double p, Rng &r) {
    Csr<double> B(A.n, A.m);
    for (size_t i = 0; i < A.n; ++i) { for (ptrdiff_t j = A.ptr[i]; j < A.ptr[i + 1]; ++j) if (A.col[j] == (ptrdiff_t)i || !r.coin(p)) B.push(A.col[j], A.val[j]); B.end_row(); }
    return B;
}

//---------------------------------------------------------------------------
// G7: small patterns from bit masks.  Off-diagonal positions of an n x n matrix
// enumerated row-major; bit k set => entry present.  Diagonal always present.
//---------------------------------------------------------------------------
inline size_t offdiag_count(size_t n) { return n * (n - 1); }
// values: valfun(i, j) for off-diagonals; diagonal = diagfun(i, sum |offdiag| of row i)
template <class FO, class FD>
Csr<double> pattern_matrix(size_t n, uint64_t mask, FO offv, FD diagv) {
    Csr<double> A(n, n); size_t k = 0;
    std::vector<std::vector<std::pair<ptrdiff_t, double>>> rows(n);
    for (size_t i = 0; i < n; ++i) for (size_t j = 0; j < n; ++j) { if (i == j) continue; if (mask >> k & 1) rows[i].emplace_back(j, offv(i, j)); ++k; }
    for (size_t i = 0; i < n; ++i) { double s = 0; for (auto &e : rows[i]) s += std::fabs(e.second); rows[i].emplace_back(i, diagv(i, s)); std::sort(rows[i].begin(), rows[i].end());
        for (auto &e : rows[i]) A.push(e.first, e.second); A.end_row(); }
    return A;
}
// symmetric graph on n vertices from a mask over the n(n-1)/2 unordered pairs
inline uint64_t sym_mask_to_full(size_t n, uint64_t smask) {
    uint64_t full = 0; size_t k = 0;
    auto pos = [&](size_t i, size_t j) { return i * (n - 1) + (j < i ? j : j - 1); };
    for (size_t i = 0; i < n; ++i) for (size_t j = i + 1; j < n; ++j) { if (smask >> k & 1) { full |= 1ULL << pos(i, j); full |= 1ULL << pos(j, i); } ++k; }
    return full;
}

// General random sparse rectangular matrix with integer values in [-vmax, vmax] \ {0}
inline Csr<double> random_int_sparse(size_t n, size_t m, double density, int vmax, Rng &r, bool sorted = true, bool allow_empty_rows = true) {
    Csr<double> A(n, m);
    for (size_t i = 0; i < n; ++i) {
        std::vector<ptrdiff_t> cols; for (size_t j = 0; j < m; ++j) if (r.coin(density)) cols.push_back(j);
        if (!allow_empty_rows && cols.empty() && m) cols.push_back(r.next() % m);
        if (!sorted) r.shuffle(cols);
        for (auto c : cols) { int v = (int)r.range(1, vmax); A.push(c, r.coin() ? v : -v); }
        A.end_row();
    }
    return A;
}
inline Csr<double> random_real_sparse(size_t n, size_t m, double density, Rng &r, bool sorted = true) {
    Csr<double> A = random_int_sparse(n, m, density, 1, r, sorted); for (auto &v : A.val) v = r.uni(-2, 2); return A;
}
// Strictly row diagonally dominant random square matrix (possibly non-symmetric pattern)
inline Csr<double> random_dd(size_t n, double density, Rng &r, bool symmetric_pattern = false, double dominance = 1.2) {
    std::vector<std::tuple<ptrdiff_t, ptrdiff_t, double>> t; std::vector<double> rs(n, 0);
    for (size_t i = 0; i < n; ++i) for (size_t j = (symmetric_pattern ? i + 1 : 0); j < n; ++j) if (i != j && r.coin(density)) {
        double v = r.uni(-1, 1); t.emplace_back(i, j, v); rs[i] += std::fabs(v);
        if (symmetric_pattern) { double w = r.uni(-1, 1); t.emplace_back(j, i, w); rs[j] += std::fabs(w); }
    }
    for (size_t i = 0; i < n; ++i) t.emplace_back(i, i, (rs[i] + 0.1) * dominance * (r.coin(0.15) ? -1 : 1));
    return from_triplets<double>(n, n, t);
}

inline std::vector<double> random_vector(size_t n, Rng &r, double lo = -1, double hi = 1) { std::vector<double> v(n); for (auto &x : v) x = r.uni(lo, hi); return v; }
inline std::vector<double> random_int_vector(size_t n, Rng &r, int vmax = 5) { std::vector<double> v(n); for (auto &x : v) x = (double)r.range(-vmax, vmax); return v; }

} // namespace vf
