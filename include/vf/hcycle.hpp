// hcycle.hpp -- helpers shared by the C02 / C03 harnesses (owner: h-cycle).
// Generators with validated domain membership (SPD irreducibly diagonally
// dominant M-matrices), power-of-two scaling, perturbations, bitwise compare.
#pragma once
#include "dense.hpp"
#include <cstring>

namespace vf {

// ---------------------------------------------------------------------------
// connectivity of the (symmetrised) adjacency graph
inline int components(const Csr<double> &A, std::vector<int> *comp_out = nullptr) {
    size_t n = A.n; std::vector<std::vector<size_t>> adj(n);
    for (size_t i = 0; i < n; ++i) for (ptrdiff_t j = A.ptr[i]; j < A.ptr[i + 1]; ++j) if ((size_t)A.col[j] != i && A.val[j] != 0) { adj[i].push_back(A.col[j]); adj[A.col[j]].push_back(i); }
    std::vector<int> comp(n, -1); int nc = 0;
    for (size_t s = 0; s < n; ++s) if (comp[s] < 0) { std::vector<size_t> q(1, s); comp[s] = nc; for (size_t h = 0; h < q.size(); ++h) for (size_t x : adj[q[h]]) if (comp[x] < 0) { comp[x] = nc; q.push_back(x); } ++nc; }
    if (comp_out) *comp_out = comp; return nc;
}

// G2, made connected: graph Laplacian of gen.hpp plus one edge between
// consecutive components (so that the matrix is irreducible).
inline Csr<double> connected_graph_laplacian(size_t n, double avgdeg, Rng &r, bool geometric, bool shift_all) {
    Csr<double> A = graph_laplacian(n, avgdeg, r, geometric, shift_all);
    std::vector<int> comp; int nc = components(A, &comp);
    if (nc == 1) return A;
    std::vector<std::tuple<ptrdiff_t, ptrdiff_t, double>> t;
    for (size_t i = 0; i < A.n; ++i) for (ptrdiff_t j = A.ptr[i]; j < A.ptr[i + 1]; ++j) t.emplace_back((ptrdiff_t)i, A.col[j], A.val[j]);
    std::vector<ptrdiff_t> rep(nc, -1); for (size_t i = 0; i < n; ++i) if (rep[comp[i]] < 0) rep[comp[i]] = i;
    for (int c = 0; c + 1 < nc; ++c) { double w = r.uni(0.2, 2.0); ptrdiff_t a = rep[c], b = rep[c + 1];
        t.emplace_back(a, b, -w); t.emplace_back(b, a, -w); t.emplace_back(a, a, w); t.emplace_back(b, b, w); }
    return from_triplets<double>(n, n, t);
}

// Domain validator for C02 item 4: symmetric (bitwise), positive diagonal,
// non-positive off-diagonals, weakly diagonally dominant in every row (up to
// the rounding of the generator's own diagonal sum), strictly in at least one,
// connected graph.  Returns "" when the matrix is in the domain.
inline std::string check_spd_mmatrix(const Csr<double> &A) {
    if (A.n != A.m) return "not square";
    Csr<double> T = transpose(A);
    if (T.ptr != A.ptr || T.col != A.col) return "pattern not symmetric";
    if (std::memcmp(T.val.data(), A.val.data(), sizeof(double) * A.val.size())) return "values not symmetric";
    bool strict = false;
    for (size_t i = 0; i < A.n; ++i) { long double off = 0, d = 0; bool hasd = false;
        for (ptrdiff_t j = A.ptr[i]; j < A.ptr[i + 1]; ++j) { if (!std::isfinite(A.val[j])) return "non-finite entry";
            if ((size_t)A.col[j] == i) { d = A.val[j]; hasd = true; } else { if (A.val[j] > 0) return "positive off-diagonal"; off += -(long double)A.val[j]; } }
        if (!hasd || !(d > 0)) return "non-positive diagonal";
        if (d < off * (1 - 64 * 1.1e-16L)) return "row not diagonally dominant";
        if (d > off * (1 + 1e-9L)) strict = true; }
    if (!strict) return "no strictly dominant row";
    if (components(A) != 1) return "reducible";
    return "";
}

inline Csr<double> scaled_pow2(const Csr<double> &A, int k) { Csr<double> S = A; for (auto &v : S.val) v = std::ldexp(v, k); return S; }

inline double norm_inf(const Csr<double> &A) { double m = 0; for (size_t i = 0; i < A.n; ++i) { double s = 0; for (ptrdiff_t j = A.ptr[i]; j < A.ptr[i + 1]; ++j) s += std::fabs(A.val[j]); m = std::max(m, s); } return m; }
inline long double norm_inf(const LD &M) { long double m = 0; for (int i = 0; i < M.rows(); ++i) m = std::max(m, M.row(i).cwiseAbs().sum()); return m; }
inline bool all_finite(const LD &M) { for (int j = 0; j < M.cols(); ++j) for (int i = 0; i < M.rows(); ++i) if (!std::isfinite((double)M(i, j))) return false; return true; }

// bitwise comparison of two dense matrices holding doubles
inline bool bitwise_equal(const LD &X, const LD &Y) {
    if (X.rows() != Y.rows() || X.cols() != Y.cols()) return false;
    for (int j = 0; j < X.cols(); ++j) for (int i = 0; i < X.rows(); ++i) { double a = (double)X(i, j), b = (double)Y(i, j); if (std::memcmp(&a, &b, sizeof a)) return false; }
    return true;
}
inline bool bitwise_equal(const std::vector<double> &a, const std::vector<double> &b) { return a.size() == b.size() && (a.empty() || !std::memcmp(a.data(), b.data(), a.size() * sizeof(double))); }

// A random G1 / G2 matrix with n in [nmin, nmax] from the C02 item-4 domain.
inline Csr<double> random_spd_mmatrix(Rng &r, int nmin, int nmax, std::string &family, J *desc = nullptr) {
    int kind = (int)r.range(0, 6); Csr<double> A; double n = r.uni(nmin, nmax);
    GridSpec g;
    switch (kind) {
        case 0: case 1: case 2: { int s = std::max(3, (int)std::sqrt(n)); g.nx = s + (int)r.range(0, 3); g.ny = std::max(3, (int)(n / g.nx)); g.nz = 1;
            if (kind == 1) g.aniso = r.logu(1e-3, 1.0); if (kind == 2) g.contrast = r.logu(1.0, 1e3);
            family = kind == 0 ? "grid2d" : kind == 1 ? "grid2d-aniso" : "grid2d-contrast"; A = grid_diffusion(g, r); break; }
        case 3: { int s = std::max(3, (int)std::sqrt(n)); g.nx = s; g.ny = std::max(3, (int)(n / g.nx)); g.nine = true; g.contrast = r.coin() ? 1.0 : r.logu(1.0, 30.0); family = "grid2d-9pt"; A = grid_diffusion(g, r); break; }
        case 4: { int s = std::max(3, (int)std::cbrt(n)); g.nx = s + (int)r.range(0, 1); g.ny = s; g.nz = std::max(2, (int)(n / (g.nx * g.ny))); g.contrast = r.coin() ? 1.0 : r.logu(1.0, 100.0); g.aniso = r.coin() ? 1.0 : r.logu(1e-2, 1.0); family = "grid3d"; A = grid_diffusion(g, r); break; }
        case 5: { family = "graph-er"; A = connected_graph_laplacian((size_t)n, r.uni(2.5, 6.0), r, false, r.coin(0.3)); break; }
        default: { family = "graph-geom"; A = connected_graph_laplacian((size_t)n, r.uni(4.0, 8.0), r, true, r.coin(0.3)); break; }
    }
    if (desc) { desc->s("family", family).n("n", A.n).n("nnz", A.nnz()); if (kind <= 4) desc->n("nx", g.nx).n("ny", g.ny).n("nz", g.nz).n("contrast", g.contrast).n("aniso", g.aniso); }
    std::string why = check_spd_mmatrix(A);
    if (!why.empty()) { fprintf(stderr, "internal: generator %s left the SPD M-matrix domain: %s\n", family.c_str(), why.c_str()); exit(3); }
    return A;
}

// Block "vector Laplacian" on the graph of a symmetric scalar M-matrix S: every edge {i,j} carries a random SPD b x b weight
// W_ij = W_ji = |s_ij| C_ij (the C_ij do not commute with each other), off-diagonal blocks are -W_ij, diagonal block
// D_i = sum_j W_ij + rowsum_i(S) C_i (+ reaction term).  x^T A x = sum_edges (x_i - x_j)^T W_ij (x_i - x_j) + sum_i rowsum_i x_i^T C_i x_i, so A is
// SPD when S is an irreducibly diagonally dominant M-matrix, and A <= 2 blockdiag(A).  Returned as scalar CSR with full blocks;
// symmetric bitwise by construction (validated by the caller together with a Cholesky factorisation).
inline Csr<double> block_laplacian(const Csr<double> &S, int b, Rng &r, double reaction = 0) {
    size_t n = S.n; std::vector<std::vector<double>> W(S.nnz()), Dg(n, std::vector<double>(b * b, 0.0));
    for (size_t i = 0; i < n; ++i) { long double rs = 0; for (ptrdiff_t j = S.ptr[i]; j < S.ptr[i + 1]; ++j) rs += S.val[j];
        if (rs > 1e-12L) { std::vector<double> C = spd_block(b, r); for (int k = 0; k < b * b; ++k) Dg[i][k] += (double)rs * C[k]; } }
    // optional "reaction term" acting on one random direction per node: rho_i q_i q_i^T (PSD), rho_i = reaction * s_ii.  Makes the diagonal
    // blocks strongly anisotropic (|D^-1| >> 1/|D|) while A <= 2 blockdiag(A) still holds.
    if (reaction > 0) for (size_t i = 0; i < n; ++i) { double sii = 0; for (ptrdiff_t j = S.ptr[i]; j < S.ptr[i + 1]; ++j) if ((size_t)S.col[j] == i) sii = S.val[j];
        std::vector<double> q(b); double nq = 0; for (auto &v : q) { v = r.uni(-1, 1); nq += v * v; } nq = std::sqrt(nq); if (!(nq > 1e-3)) { q.assign(b, 0.0); q[0] = 1; nq = 1; } for (auto &v : q) v /= nq;
        for (int p = 0; p < b; ++p) for (int k = 0; k < b; ++k) Dg[i][p * b + k] += reaction * sii * (q[p] * q[k]); }
    for (size_t i = 0; i < n; ++i) for (ptrdiff_t j = S.ptr[i]; j < S.ptr[i + 1]; ++j) { size_t c = S.col[j]; if (c <= i) continue; std::vector<double> C = spd_block(b, r); double w = std::fabs(S.val[j]); for (auto &v : C) v *= w; W[j] = C;
        for (ptrdiff_t k = S.ptr[c]; k < S.ptr[c + 1]; ++k) if ((size_t)S.col[k] == i) W[k] = C; }
    for (size_t i = 0; i < n; ++i) for (ptrdiff_t j = S.ptr[i]; j < S.ptr[i + 1]; ++j) if ((size_t)S.col[j] != i) { if (W[j].empty()) { fprintf(stderr, "internal: block_laplacian needs a structurally symmetric matrix\n"); exit(3); } for (int k = 0; k < b * b; ++k) Dg[i][k] += W[j][k]; }
    Csr<double> A(n * b, n * b);
    for (size_t i = 0; i < n; ++i) for (int p = 0; p < b; ++p) { for (ptrdiff_t j = S.ptr[i]; j < S.ptr[i + 1]; ++j) { size_t c = S.col[j]; for (int q = 0; q < b; ++q) A.push(c * b + q, c == i ? Dg[i][p * b + q] : -W[j][p * b + q]); } A.end_row(); }
    Csr<double> T = transpose(A);
    if (T.ptr != A.ptr || T.col != A.col || std::memcmp(T.val.data(), A.val.data(), sizeof(double) * A.val.size())) { fprintf(stderr, "internal: block_laplacian is not symmetric\n"); exit(3); }
    return A;
}

} // namespace vf
