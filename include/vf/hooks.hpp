// hooks.hpp -- harness-side definitions for the AMGCL_VERIF hooks in /repo:
// the friend accessor and the point/barrier callbacks.
// Include AFTER <amgcl/util.hpp> has been seen (any amgcl header).  In a harness
// made of several translation units define VF_HOOKS_NO_DEF in all but one.
#pragma once
#include <amgcl/util.hpp>

#ifndef AMGCL_VERIF
#  error "harnesses are compiled with -DAMGCL_VERIF"
#endif

namespace amgcl { namespace verif {
#ifndef VF_HOOKS_NO_DEF
void (*point_hook)(const char*, long) = nullptr;
void (*barrier_hook)(const char*) = nullptr;
#endif

// Generic member accessor: access::NAME(obj) returns a reference to obj.NAME
// for the classes that befriend amgcl::verif::access under the guard.
#define VF_ACC(NAME) template <class T> static auto NAME(T &t) -> decltype((t.NAME)) { return t.NAME; }
struct access {
    VF_ACC(levels)      // amg, mpi::amg
    VF_ACC(ilu)         // ilu0 / iluk / ilut -> shared_ptr<ilu_solve>
    VF_ACC(base)        // ilup -> shared_ptr<Base>
    VF_ACC(L) VF_ACC(U) VF_ACC(D) VF_ACC(lower) VF_ACC(upper)   // ilu_solve (serial copies / parallel schedules)
    VF_ACC(forward) VF_ACC(backward)                            // gauss_seidel parallel sweeps
    VF_ACC(is_serial)
    VF_ACC(tasks) VF_ACC(ptr) VF_ACC(col) VF_ACC(val) VF_ACC(ord) VF_ACC(nthreads)
    VF_ACC(M) VF_ACC(c) VF_ACC(d)                               // chebyshev
    VF_ACC(P) VF_ACC(S) VF_ACC(Fpp) VF_ACC(Scatter) VF_ACC(App) // cpr
    VF_ACC(K) VF_ACC(Kuu) VF_ACC(Kup) VF_ACC(Kpu) VF_ACC(Kpp) VF_ACC(x2u) VF_ACC(x2p) VF_ACC(u2x) VF_ACC(p2x) // schur
    VF_ACC(prm) VF_ACC(n) VF_ACC(perm) VF_ACC(A) VF_ACC(Z) VF_ACC(E) VF_ACC(AZ)
    VF_ACC(relax) VF_ACC(solve) VF_ACC(R) VF_ACC(f) VF_ACC(u) VF_ACC(t)
};
#undef VF_ACC
} }
