// krylov.hpp -- shared by the C01 / C15 harnesses (h-solvers): the table of
// iterative-solver configurations offered by amgcl::runtime::solver::wrapper,
// the truthful-residual oracle of DESIGN.md 5/C01, and condition-number bounds.
// No amgcl dependency (the preconditioner is passed as a functor).
#pragma once
#include "gen.hpp"
#include <complex>
#include <functional>

namespace vf {

// 8 solvers (preonly excluded: documented to report (0,0)); 4 of them offer pside => 12 (solver, side) pairs.
struct SolverCfg { const char *type; bool left; bool has_side; bool explicit_res; };
static const SolverCfg SOLVER_CFGS[12] = {
    {"cg",         false, false, false},
    {"bicgstab",   false, true,  false}, {"bicgstab",  true, true, false},
    {"bicgstabl",  false, true,  false}, {"bicgstabl", true, true, false},
    {"gmres",      false, true,  true},  {"gmres",     true, true, true},
    {"lgmres",     false, true,  true},  {"lgmres",    true, true, true},
    {"fgmres",     false, false, true},
    {"idrs",       false, false, false},
    {"richardson", false, false, true}};
inline std::string cfg_name(const SolverCfg &s) { return std::string(s.type) + (s.left ? "-left" : ""); }

template <class S> struct ldtype { typedef long double type; typedef long double real; };
template <class T> struct ldtype<std::complex<T>> { typedef std::complex<long double> type; typedef long double real; };
template <class S> inline typename ldtype<S>::type to_ld(S v) { return (typename ldtype<S>::type)v; }
template <class T> inline std::complex<long double> to_ld(std::complex<T> v) { return std::complex<long double>(v.real(), v.imag()); }
inline long double abs2_ld(long double v) { return v * v; }
inline long double abs2_ld(std::complex<long double> v) { return std::norm(v); }
template <class S> inline S from_ld(long double v) { return (S)v; }
template <class S> inline S from_ld(std::complex<long double> v) { typedef typename S::value_type T; return S((T)v.real(), (T)v.imag()); }
template <class S> struct unit_roundoff { static double get() { return 0.5 * (double)std::numeric_limits<S>::epsilon(); } };
template <class T> struct unit_roundoff<std::complex<T>> { static double get() { return 0.5 * (double)std::numeric_limits<T>::epsilon() * 4; } };  // complex multiply: < 4u (sqrt(5) u would do)
inline bool finite_s(double v) { return std::isfinite(v); }
inline bool finite_s(float v) { return std::isfinite(v); }
template <class T> inline bool finite_s(std::complex<T> v) { return std::isfinite(v.real()) && std::isfinite(v.imag()); }

// Residual of the returned x, evaluated in long double from the harness's own copy of the matrix.
template <class S> struct Residual {
    std::vector<S> r;                // long-double residual rounded to working precision (input of P for the left-preconditioned value)
    long double nr = 0, nf = 0;      // ||f - A x||_2, ||f||_2
    long double absAx = 0;           // || |A||x| ||_2  (forward error scale of a working-precision residual evaluation)
    long double nx = 0;
    size_t maxrow = 0; bool finite = true, overflow = false; long double lim = 0;   // lim: largest norm whose square does not overflow the working precision (/4)
};
template <class S> Residual<S> residual_ld(const Csr<S> &A, const std::vector<S> &f, const std::vector<S> &x) {
    typedef typename ldtype<S>::type L; Residual<S> R; R.r.resize(A.n);
    for (size_t i = 0; i < A.n; ++i) {
        L s = to_ld(f[i]); long double a = 0;
        for (ptrdiff_t j = A.ptr[i]; j < A.ptr[i + 1]; ++j) { L p = to_ld(A.val[j]) * to_ld(x[A.col[j]]); s -= p; a += std::sqrt(abs2_ld(p)); }
        R.maxrow = std::max<size_t>(R.maxrow, A.ptr[i + 1] - A.ptr[i]);
        R.nr += abs2_ld(s); R.nf += abs2_ld(to_ld(f[i])); R.absAx += a * a; R.nx += abs2_ld(to_ld(x[i]));
        R.r[i] = from_ld<S>(s);
    }
    R.nr = std::sqrt(R.nr); R.nf = std::sqrt(R.nf); R.absAx = std::sqrt(R.absAx); R.nx = std::sqrt(R.nx);
    // "finite" means: representable by a working-precision evaluation.  A plain (unscaled) 2-norm squares the entries, so a residual whose squared
    // norm overflows the working precision (|r| >~ 1e154 in double; seen with diverging Richardson iterations) is non-finite for the library
    // although long double still holds it; reporting inf / NaN for it is overflow, not mis-reporting.
    typedef typename ldtype<S>::real Rl; (void)sizeof(Rl);
    long double lim = std::sqrt((long double)std::numeric_limits<typename std::conditional<std::is_same<S, float>::value || std::is_same<S, std::complex<float>>::value, float, double>::type>::max()) / 4;
    R.lim = lim; R.finite = std::isfinite((double)R.nr); R.overflow = !(R.nr < lim && R.nx < lim);
    return R;
}
template <class S> long double norm2_ld(const std::vector<S> &v) { long double s = 0; for (auto &e : v) s += abs2_ld(to_ld(e)); return std::sqrt(s); }

// 2-norm bounds of A and A^{-1} (exact from a dense SVD when small; rigorous upper bounds otherwise)
struct Cond { double normA = 0, normAinv = 0; const char *how = "";
    double normP = 0;                 // probe estimate of the preconditioner's 2-norm (0 = not measured)
    bool smoother_outside_domain = false;   // e.g. Chebyshev (built for SPD spectra) on a non-symmetric matrix: its evaluation is numerically unstable
    double kappa() const { return normA * normAinv; }
    // conditioning of the call: the iterates live in range(P), their size is governed by max(||A^-1||, ||P||) ||f||
    double kappa_call() const { return normA * std::max(normAinv, normP); } };

struct CallSpec { SolverCfg cfg; size_t maxiter = 100; int L = 2; double tol = 1e-8; double delta = 0; bool ns_search = false; };

// The truthful-residual oracle.  Returns false when a failure was emitted.
//   right: reported == ||f - A x|| / ||f||;   left: reported == ||P (f - A x)|| / ||f||  (P = the solver's own preconditioner)
// Tolerances (u = unit roundoff of the working precision, k = iters + 1):
//   solvers that recompute the residual on exit (gmres, lgmres, fgmres, richardson):
//       |res - true| <= max(1e-6 true, d_r / ||f||),   d_r = 8 u (maxrow + 3) (|| |A||x| || + ||f||)
//       (forward error of one working-precision evaluation of f - A x and of its norm);
//       left side: P is applied to two residual vectors that differ by at most d_r, so the bound is multiplied by 4 ||A^-1||
//       (modelling assumption ||P|| <= 4 ||A^-1||, the AMG / relaxation preconditioners approximate A^-1) and the relative
//       part becomes max(1e-6, 100 u kappa) (rounding inside the two P applications)
//   solvers carrying a recursive residual (cg, bicgstab, bicgstabl, idrs):
//       |res - true| <= max(1e-3 true, 100 u k kappa_2(A) (1 + ||A|| ||x0|| / ||f||))   (DESIGN.md 5/C01; Greenbaum's bound on the
//       gap between updated and true residual), left side multiplied by max(1, 4 ||A^-1||, ||P||).
//   kappa of the *call*: ||A|| max(||A^-1||, ||P||) with ||P|| a probe estimate -- the iterates live in range(P); a preconditioner
//   that amplifies (e.g. a Chebyshev smoother on a strongly non-symmetric matrix, observed gain 1e10) makes the call ill-conditioned
//   whatever kappa(A) is, and the bounds scale with it (such calls are counted, see calls_with_preconditioner_norm_above_10x_inverse_norm).
//   A non-finite reported value is truthful iff the true value is non-finite as well.
//   A-posteriori conditioning (only evaluated when the bounds above are exceeded, i.e. on suspects): the same call is repeated on a fresh object with the
//   right-hand side perturbed entry-wise by relative eps = 1e3 u; D = || v(f') - v(f) || / ||f|| with v the true (preconditioned) residual vector of the
//   returned iterate.  Rounding acts like relative perturbations of size u in each of the k iterations, so to first order the reported value may be off
//   by k (u / eps) D; allowed: 10 k (u / eps) D.  This measures the conditioning of the *whole call* (operator A P or P A, iterates in range(P)), which
//   ||A||, ||A^-1|| and a norm estimate of P cannot bound when P is nearly singular in some directions (Chebyshev smoothing of a strongly
//   non-symmetric matrix: BiCGStab(L) drifted by 5e-7 ||f|| in 4 iterations while kappa(A) = 90).  A mis-reporting solver is not helped by it: its
//   error does not shrink with the perturbation size.
template <class S> using Rerun = std::function<bool(const std::vector<S> &f2, std::vector<S> &x2)>;

template <class S, class ApplyP>
bool check_truthful(Case &c, const CallSpec &cs, const Csr<S> &A, const std::vector<S> &f, const std::vector<S> &x0, const std::vector<S> &x,
                    size_t iters, double res, const Cond &K, ApplyP applyP, const std::string &tag, double *out_true = nullptr, Rerun<S> rerun = Rerun<S>()) {
    // BiCGStab(L > 1) gets its own key: its minimal-residual polynomial step is a separate mechanism (Gram matrix of L Krylov vectors)
    const bool isbl = std::string(cs.cfg.type) == "bicgstabl";
    const std::string name = std::string(cs.cfg.type) + (isbl && cs.L > 1 ? "(L>1)" : "") + (cs.cfg.left ? "-left" : "") + tag; bool ok = true;
    const double u = unit_roundoff<S>::get();
    // (b) iteration bound -- exact integer comparison
    size_t budget = cs.maxiter + (std::string(cs.cfg.type) == "bicgstabl" ? (size_t)std::max(0, cs.L - 1) : 0);
    ok &= c.check(iters <= budget, name + ":iterations-exceed-maxiter", "returned iteration count exceeds the configured maximum (+L-1 for BiCGStab(L))",
                  J().n("iters", iters).n("maxiter", cs.maxiter).n("L", cs.L));
    // (a) truthful residual
    Residual<S> R = residual_ld(A, f, x);
    if (cs.ns_search && R.nf == 0) R.nf = 1;      // null-space search mode: a zero right-hand side is not the trivial problem, the residual is reported relative to 1
    long double tv = R.nr / R.nf; bool tfinite = R.finite;
    if (cs.cfg.left) {
        if (tfinite) { std::vector<S> z(A.n, S()); applyP(R.r, z); long double nz = norm2_ld(z); tv = nz / R.nf; tfinite = std::isfinite((double)tv); if (!(nz < R.lim)) R.overflow = true; }   // the preconditioned residual can overflow on its own
    }
    if (out_true) *out_true = (double)tv;
    if (!std::isfinite(res)) {
        obs_sum("nonfinite_reports");
        ok &= c.check(!tfinite || R.overflow, name + ":nonfinite-report-for-finite-residual", "solver reported a non-finite residual although the true residual of the returned x is finite",
                      J().n("reported", res).n("true", (double)tv).n("iters", iters));
        return ok;
    }
    if (!tfinite) { c.check(false, name + ":finite-report-for-nonfinite-residual", "solver reported a finite residual but the returned x has a non-finite true residual", J().n("reported", res).n("iters", iters)); return false; }
    // Scope of the recursive-residual and left-side clauses: the preconditioner approximates A^-1.  A P whose probe gain exceeds 10 ||A^-1|| amplifies
    // (observed: Chebyshev smoothing of strongly non-symmetric convection-diffusion matrices, gains 1e3 .. 2e11 against ||A^-1|| = 3..7): its own
    // evaluation is numerically unstable and the iterates blow up transiently, so neither kappa(A) nor any norm of P bounds the gap between the
    // recursively updated and the true residual (BiCGStab(L) evaluates P once more on exit; Greenbaum's bound scales with max_j ||x_j||).  Such calls
    // are counted and only held to the iteration bound, the non-finite rule and -- explicit right-side residuals -- the forward bound below.
    if (K.smoother_outside_domain && (cs.cfg.left || !cs.cfg.explicit_res)) { obs_sum("checks_skipped_smoother_outside_domain"); return ok; }
    if (K.normP > 10 * K.normAinv && (cs.cfg.left || !cs.cfg.explicit_res)) { obs_sum("checks_skipped_amplifying_preconditioner"); return ok; }
    if (!std::isfinite(K.kappa_call()) && (cs.cfg.left || !cs.cfg.explicit_res)) { obs_sum("checks_skipped_nonfinite_preconditioner_probe"); return ok; }   // P itself overflows / is NaN: no bound exists
    long double nx0 = norm2_ld(x0);
    long double dr = 8.0L * u * (R.maxrow + 3) * (R.absAx + R.nf);
    // left side: the compared values are P applied to residual vectors, hence scaled by ||P|| (>= the probe estimate; a useful P has ||P|| ~ ||A^-1||)
    long double leftamp = cs.cfg.left ? std::max<long double>(1.0L, std::max<long double>(4.0L * K.normAinv, K.normP)) : 1.0L;
    long double rel, flo;
    if (cs.cfg.explicit_res) { rel = cs.cfg.left ? std::max<long double>(1e-6L, 100.0L * u * K.kappa_call()) : 1e-6L; flo = dr / R.nf * leftamp; }
    else { rel = 1e-3L; flo = 100.0L * u * (iters + 1) * K.kappa_call() * (1.0L + K.normA * nx0 / R.nf) * leftamp; }
    // A call whose conditioning makes the recursive-residual floor exceed 1e-3 (in units of ||f||, x0 = 0) is outside what the
    // statement can say anything about ("rounding bounded by the conditioning of the call"): not evaluated, counted.
    if (!cs.cfg.explicit_res && !(100.0L * u * (iters + 1) * K.kappa_call() < 1e-3L)) { obs_sum("recursive_checks_skipped_ill_conditioned_call"); return ok; }
    long double bound = std::max(rel * tv, flo), diff = fabsl((long double)res - tv);
    if (!(std::isfinite((double)bound))) { fprintf(stderr, "c01 oracle: non-finite bound (kappa=%g)\n", K.kappa()); exit(3); }
    if (!(diff <= bound) && rerun) {
        typedef typename ldtype<S>::real Rl; const double eps = 1e3 * u; Rng pr(hash_str(name, (uint64_t)A.n * 1315423911ULL + iters));
        std::vector<S> f2 = f, x2 = x0; for (auto &e : f2) e = e * S((typename std::conditional<std::is_same<Rl, long double>::value, double, double>::type)(1 + eps * pr.uni(-1, 1)));
        obs_sum("sensitivity_probes");
        if (rerun(f2, x2)) {
            Residual<S> R2 = residual_ld(A, f2, x2); std::vector<S> v1 = R.r, v2 = R2.r;
            if (cs.cfg.left && R2.finite) { std::vector<S> z1(A.n, S()), z2(A.n, S()); applyP(R.r, z1); applyP(R2.r, z2); v1 = z1; v2 = z2; }
            long double d = 0; for (size_t i = 0; i < A.n; ++i) d += abs2_ld(to_ld(v2[i]) - to_ld(v1[i])); d = std::sqrt(d) / R.nf;
            long double fs = 10.0L * (iters + 1) * (u / eps) * d;
            if (std::isfinite((double)fs) && fs > bound) { bound = fs; obs_sum("sensitivity_floor_decided"); }
            else if (!std::isfinite((double)fs)) { obs_sum("sensitivity_floor_decided"); return ok; }     // perturbed call overflowed / went NaN: chaotic call, no bound
        }
    }
    obs_max(std::string("max_mismatch_over_bound_") + (cs.cfg.explicit_res ? "explicit" : "recursive") + (cs.cfg.left ? "_left" : "_right"), (double)(diff / bound));
    if (tv > 0) obs_max("max_rel_discrepancy_where_true_above_1e-6", tv > 1e-6L ? (double)(diff / tv) : 0.0);
    ok &= c.check(diff <= bound, name + ":residual-mismatch", "reported residual differs from the true relative residual of the returned x beyond the rounding bound",
                  J().n("reported", res).n("true", (double)tv).n("bound", (double)bound).n("iters", iters).n("tol", cs.tol).n("maxiter", cs.maxiter).n("kappa_call", K.kappa_call()).n("normP_probe", K.normP).n("L", cs.L).n("delta", cs.delta));
    return ok;
}

} // namespace vf
