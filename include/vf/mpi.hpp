// mpi.hpp -- harness-side helpers for the checks that run under mpirun (C11, C12):
// contiguous partitions (random / exhaustive), row slices, a "bag" that collects
// tagged records from all ranks on rank 0 with one Gatherv, structural monitors of
// amgcl::mpi::distributed_matrix, and the delay hook for the exchange points.
// Include after <amgcl/mpi/distributed_matrix.hpp> and <vf/hooks.hpp>.
#pragma once
#include <mpi.h>
#include <unistd.h>
#include <time.h>
#include <map>
#include <vf/vf.hpp>
#include <vf/gen.hpp>

namespace vfm {

typedef std::vector<ptrdiff_t> Part;      // cut[0] = 0 <= cut[1] <= ... <= cut[R] = N

inline std::string part_str(const Part &p) { std::string s; for (size_t i = 0; i + 1 < p.size(); ++i) { if (i) s += "+"; s += std::to_string(p[i + 1] - p[i]); } return s; }

// Random contiguous partition of [0,N) over R ranks; cut points are multiples of `align`.
// mode 0: balanced; 1: random cut points (empty ranks occur naturally); 2: random with forced empty ranks;
// 3: everything on one random rank.
inline Part random_part(ptrdiff_t N, int R, vf::Rng &r, int align = 1, int mode = -1) {
    if (mode < 0) mode = (int)r.range(0, 3);
    ptrdiff_t nb = N / align; Part c(R + 1, 0); c[R] = nb;
    if (mode == 0) { for (int k = 1; k < R; ++k) c[k] = nb * k / R; }
    else if (mode == 3) { int who = (int)r.range(0, R - 1); for (int k = 1; k < R; ++k) c[k] = (k <= who) ? 0 : nb; }
    else {
        for (int k = 1; k < R; ++k) c[k] = r.range(0, nb);
        std::sort(c.begin(), c.end());
        if (mode == 2 && R > 1) { int e = (int)r.range(1, R - 1); c[e] = c[e - 1]; if (r.coin() && R > 2) { int f = (int)r.range(1, R - 1); c[f] = c[f - 1]; } std::sort(c.begin(), c.end()); }
    }
    for (auto &x : c) x *= align; c[R] = N; return c;
}
// All contiguous partitions (weak compositions) of N into R parts.
inline std::vector<Part> all_parts(ptrdiff_t N, int R) {
    std::vector<Part> out; Part c(R + 1, 0); c[R] = N;
    std::function<void(int)> rec = [&](int k) { if (k == R) { out.push_back(c); return; } for (ptrdiff_t v = c[k - 1]; v <= N; ++v) { c[k] = v; rec(k + 1); } };
    if (R == 1) out.push_back(c); else rec(1);
    return out;
}

template <class V> vf::Csr<V> slice_rows(const vf::Csr<V> &A, ptrdiff_t b, ptrdiff_t e) {
    vf::Csr<V> S(e - b, A.m);
    for (ptrdiff_t i = b; i < e; ++i) { for (ptrdiff_t j = A.ptr[i]; j < A.ptr[i + 1]; ++j) S.push(A.col[j], A.val[j]); S.end_row(); }
    return S;
}

//---------------------------------------------------------------------------
// Delay injection at the exchange points (amgcl::verif::point_hook).
//---------------------------------------------------------------------------
struct DelayState { uint64_t s = 1; long calls = 0, slept = 0; int prob4 = 1; int maxus = 80; long oneshot_us = 0; };   // oneshot_us: the next hook call sleeps that long, once
inline DelayState &delay_state() { static DelayState d; return d; }
inline void delay_hook(const char *, long) {
    DelayState &d = delay_state(); ++d.calls;
    if (d.oneshot_us) { struct timespec t1; t1.tv_sec = d.oneshot_us / 1000000; t1.tv_nsec = 1000L * (d.oneshot_us % 1000000); d.oneshot_us = 0; nanosleep(&t1, nullptr); ++d.slept; return; }
    uint64_t z = vf::splitmix64(d.s);
    if ((int)((z >> 7) & 3) >= d.prob4) return;
    unsigned us = 1 + (unsigned)((z >> 16) % (unsigned)d.maxus);
    struct timespec ts; ts.tv_sec = 0; ts.tv_nsec = 1000L * us; nanosleep(&ts, nullptr); ++d.slept;
}
inline void seed_delays(uint64_t case_seed, int rank) { delay_state().s = case_seed ^ (0x9e3779b97f4a7c15ULL * (uint64_t)(rank + 1)); }
inline void install_delay_hook() { amgcl::verif::point_hook = &delay_hook; }

//---------------------------------------------------------------------------
// Bag: tagged records (tag, i, j, v[]) collected on rank 0 with a single Gatherv.
//---------------------------------------------------------------------------
struct Rec { int tag; long i, j; int src; std::vector<double> v; };
struct Bag {
    MPI_Comm comm; int rank, size; std::vector<double> buf; std::vector<Rec> recs;   // recs valid on rank 0 after collect()
    explicit Bag(MPI_Comm c) : comm(c) { MPI_Comm_rank(c, &rank); MPI_Comm_size(c, &size); }
    void add(int tag, long i, long j, const double *v, int nv) { buf.push_back(tag); buf.push_back((double)i); buf.push_back((double)j); buf.push_back(nv); for (int k = 0; k < nv; ++k) buf.push_back(v[k]); }
    void add(int tag, long i, long j, double v) { add(tag, i, j, &v, 1); }
    void collect() {
        int cnt = (int)buf.size(); std::vector<int> cnts(size), disp(size + 1, 0);
        MPI_Gather(&cnt, 1, MPI_INT, cnts.data(), 1, MPI_INT, 0, comm);
        std::vector<double> all;
        if (rank == 0) { for (int k = 0; k < size; ++k) disp[k + 1] = disp[k] + cnts[k]; all.resize(disp[size]); }
        MPI_Gatherv(buf.data(), cnt, MPI_DOUBLE, all.data(), cnts.data(), disp.data(), MPI_DOUBLE, 0, comm);
        buf.clear(); recs.clear();
        if (rank == 0) for (int s = 0; s < size; ++s) for (size_t k = disp[s]; k < (size_t)disp[s + 1];) {
            Rec r; r.tag = (int)all[k]; r.i = (long)all[k + 1]; r.j = (long)all[k + 2]; int nv = (int)all[k + 3]; r.src = s; r.v.assign(all.begin() + k + 4, all.begin() + k + 4 + nv); k += 4 + nv; recs.push_back(std::move(r));
        }
    }
    std::vector<const Rec*> with(int tag) const { std::vector<const Rec*> o; for (auto &r : recs) if (r.tag == tag) o.push_back(&r); return o; }
};

template <class T> struct nscal { static const int value = sizeof(T) / sizeof(typename amgcl::math::scalar_of<T>::type); };
template <class T> void to_doubles(const T &v, double *out) { typedef typename amgcl::math::scalar_of<T>::type S; const S *p = reinterpret_cast<const S*>(&v); for (int k = 0; k < nscal<T>::value; ++k) out[k] = (double)p[k]; }

// Structural monitor of one rank's part of a distributed matrix (build form).  Returns 0 when fine.
enum { DM_OK = 0, DM_NULL = 1, DM_ROWS = 2, DM_LOCCOLS = 3, DM_LOCRANGE = 4, DM_REMRANGE = 5, DM_REMNCOLS = 6, DM_PTR = 7, DM_SHIFT = 8, DM_LOCNNZ = 9 };
inline const char *dm_err(int e) { static const char *n[] = {"ok", "null-part", "local-rows", "local-ncols", "local-col-out-of-range", "remote-col-inside-own-range-or-outside-matrix", "remote-ncols-vs-recv-count", "ptr-not-monotone", "col-shift", "loc-nonzeros"}; return n[e]; }
template <class DM> int dm_local_check(const DM &A, ptrdiff_t exp_rows, ptrdiff_t exp_cols, ptrdiff_t exp_shift, ptrdiff_t glob_cols) {
    auto L = A.local(), Rm = A.remote(); if (!L || !Rm) return DM_NULL;
    if ((ptrdiff_t)L->nrows != exp_rows || (ptrdiff_t)Rm->nrows != exp_rows || A.loc_rows() != exp_rows) return DM_ROWS;
    if ((ptrdiff_t)L->ncols != exp_cols || A.loc_cols() != exp_cols) return DM_LOCCOLS;
    if (A.loc_col_shift() != exp_shift) return DM_SHIFT;
    if (exp_rows && (L->ptr[0] != 0 || Rm->ptr[0] != 0)) return DM_PTR;
    for (ptrdiff_t i = 0; i < exp_rows; ++i) {
        if (L->ptr[i + 1] < L->ptr[i] || Rm->ptr[i + 1] < Rm->ptr[i]) return DM_PTR;
        for (auto j = L->ptr[i]; j < L->ptr[i + 1]; ++j) if (L->col[j] < 0 || L->col[j] >= exp_cols) return DM_LOCRANGE;
        for (auto j = Rm->ptr[i]; j < Rm->ptr[i + 1]; ++j) { auto c = Rm->col[j]; if (c < 0 || c >= glob_cols || (c >= exp_shift && c < exp_shift + exp_cols)) return DM_REMRANGE; }
    }
    if (exp_rows && ((size_t)L->ptr[exp_rows] != L->nnz || (size_t)Rm->ptr[exp_rows] != Rm->nnz)) return DM_PTR;
    if ((ptrdiff_t)(L->nnz + Rm->nnz) != A.loc_nonzeros()) return DM_LOCNNZ;
    if (Rm->ncols != A.cpat().recv.count()) return DM_REMNCOLS;
    return DM_OK;
}
// Put the entries of the rank's rows into the bag with global row / column numbers (remote part must still be in global numbering).
template <class DM> void bag_dm(Bag &b, int tag, const DM &A, ptrdiff_t row_shift) {
    typedef typename DM::value_type V; double tmp[nscal<V>::value];
    auto L = A.local(), Rm = A.remote(); ptrdiff_t cs = A.loc_col_shift();
    for (size_t i = 0; i < L->nrows; ++i) {
        for (auto j = L->ptr[i]; j < L->ptr[i + 1]; ++j) { to_doubles(L->val[j], tmp); b.add(tag, (long)(i + row_shift), (long)(L->col[j] + cs), tmp, nscal<V>::value); }
        for (auto j = Rm->ptr[i]; j < Rm->ptr[i + 1]; ++j) { to_doubles(Rm->val[j], tmp); b.add(tag, (long)(i + row_shift), (long)Rm->col[j], tmp, nscal<V>::value); }
    }
}
template <class Vec> void bag_vec(Bag &b, int tag, const Vec &v, size_t n, ptrdiff_t shift) {
    typedef typename std::decay<decltype(v[0])>::type T; double tmp[nscal<T>::value];
    for (size_t i = 0; i < n; ++i) { to_doubles(v[i], tmp); b.add(tag, (long)(i + shift), 0, tmp, nscal<T>::value); }
}

// Assembled (rank 0) view of a gathered matrix: entries keyed by (row, col); duplicates flagged.
struct Assembled { std::map<std::pair<long, long>, std::vector<double>> e; long dups = 0; long out_of_range = 0; };
inline Assembled assemble(const Bag &b, int tag, long n, long m) {
    Assembled a; for (auto r : b.with(tag)) { if (r->i < 0 || r->i >= n || r->j < 0 || r->j >= m) { a.out_of_range++; continue; } auto k = std::make_pair(r->i, r->j); if (a.e.count(k)) a.dups++; else a.e[k] = r->v; } return a;
}
inline bool bits_equal(double a, double b) { return std::memcmp(&a, &b, sizeof a) == 0 || (a == b); }   // +0 / -0 are the same number

// all ranks: is the POD value identical everywhere?  (rank 0 gets the answer and the list)
template <class T> std::vector<T> gather_scalar(MPI_Comm comm, const T &v) {
    int size; MPI_Comm_size(comm, &size); std::vector<T> all(size);
    MPI_Gather((void*)&v, sizeof(T), MPI_BYTE, all.data(), sizeof(T), MPI_BYTE, 0, comm); return all;
}
template <class T> bool all_identical(const std::vector<T> &v) { for (auto &x : v) if (std::memcmp(&x, &v[0], sizeof(T)) != 0) return false; return true; }

} // namespace vfm
