// solvecheck.hpp -- (h-backend; used by the C13 / C17 harnesses) truthful-residual oracle for
// solves that went through a *transformed formulation* (block values, real-equivalent complex
// form, permuted / scaled system, mixed precision): the returned solution, mapped back by the
// harness, is checked against the ORIGINAL scalar (or complex) system held by the harness.
// Same tolerances as DESIGN.md 5/C01 (see include/vf/krylov.hpp of the C01 harness):
//   solvers that recompute the residual on exit (fgmres, gmres, lgmres, richardson; right side):
//       |res - true| <= max(1e-6 true, d_r/||f||),  d_r = 8 u (maxrow + 3) (|| |A||x| || + ||f||)
//       (forward error of one working-precision evaluation of f - A x and of its norm)
//   solvers carrying a recursive residual (cg, bicgstab, idrs; right side):
//       |res - true| <= max(1e-3 true, 100 u (iters + 1) kappa_2(A))      (x0 = 0)
//       kappa_2 from a dense SVD, so these are only used for n <= ~600.
// No amgcl dependency.
#pragma once
#include "dense.hpp"
#include <Eigen/SVD>

namespace vf {

struct ResInfo { long double nr = 0, nf = 0, absAx = 0, nx = 0; size_t maxrow = 0; bool finite = true;
    long double rel() const { return nr / nf; } };

inline long double sc_abs2(long double v) { return v * v; }
inline long double sc_abs2(const std::complex<long double> &v) { return std::norm(v); }
inline long double sc_ld(double v) { return v; }
inline long double sc_ld(float v) { return v; }
inline std::complex<long double> sc_ld(const std::complex<double> &v) { return std::complex<long double>(v.real(), v.imag()); }

template <class S> ResInfo residual_info(const Csr<S> &A, const std::vector<S> &f, const std::vector<S> &x) {
    ResInfo R; if (f.size() != A.n || x.size() != A.m) { fprintf(stderr, "harness: residual_info size mismatch\n"); exit(3); }
    for (size_t i = 0; i < A.n; ++i) {
        auto s = sc_ld(f[i]); long double a = 0;
        for (ptrdiff_t j = A.ptr[i]; j < A.ptr[i + 1]; ++j) { auto p = sc_ld(A.val[j]) * sc_ld(x[A.col[j]]); s -= p; a += std::sqrt(sc_abs2(p)); }
        R.maxrow = std::max<size_t>(R.maxrow, A.ptr[i + 1] - A.ptr[i]);
        R.nr += sc_abs2(s); R.nf += sc_abs2(sc_ld(f[i])); R.absAx += a * a;
    }
    for (size_t i = 0; i < x.size(); ++i) R.nx += sc_abs2(sc_ld(x[i]));
    R.nr = std::sqrt(R.nr); R.nf = std::sqrt(R.nf); R.absAx = std::sqrt(R.absAx); R.nx = std::sqrt(R.nx);
    R.finite = std::isfinite((double)R.nr) && std::isfinite((double)R.nx);
    return R;
}

// 2-norm condition number from a dense SVD (real or complex), n <= ~800
inline double kappa2(const Csr<double> &A) {
    Eigen::MatrixXd D = Eigen::MatrixXd::Zero(A.n, A.m); for (size_t i = 0; i < A.n; ++i) for (ptrdiff_t j = A.ptr[i]; j < A.ptr[i + 1]; ++j) D(i, A.col[j]) += A.val[j];
    Eigen::BDCSVD<Eigen::MatrixXd> svd(D); Eigen::VectorXd s = svd.singularValues(); double lo = s[s.size() - 1];
    return lo > 0 ? s[0] / lo : std::numeric_limits<double>::infinity();
}
inline double kappa2(const Csr<std::complex<double>> &A) {
    Eigen::MatrixXcd D = Eigen::MatrixXcd::Zero(A.n, A.m); for (size_t i = 0; i < A.n; ++i) for (ptrdiff_t j = A.ptr[i]; j < A.ptr[i + 1]; ++j) D(i, A.col[j]) += A.val[j];
    Eigen::BDCSVD<Eigen::MatrixXcd> svd(D); Eigen::VectorXd s = svd.singularValues(); double lo = s[s.size() - 1];
    return lo > 0 ? s[0] / lo : std::numeric_limits<double>::infinity();
}

struct SolveSpec { bool explicit_res = true; size_t maxiter = 100; double tol = 1e-8; double kappa = 0; double u = 0.5 * 2.220446049250313e-16; bool must_converge = true; };

// name: stable key prefix naming the formulation.  x: the solution mapped back to the original unknowns.
template <class S>
bool check_solution(Case &c, const std::string &name, const Csr<S> &A, const std::vector<S> &f, const std::vector<S> &x,
                    size_t iters, double res, const SolveSpec &sp, double *true_out = nullptr) {
    bool ok = true;
    ok &= c.check(iters <= sp.maxiter, name + ":iterations-exceed-maxiter", "returned iteration count exceeds maxiter", J().n("iters", iters).n("maxiter", sp.maxiter));
    ResInfo R = residual_info(A, f, x); long double tv = R.rel(); if (true_out) *true_out = (double)tv;
    if (!R.finite || !std::isfinite(res)) {
        c.check(false, name + ":non-finite", "non-finite reported residual or solution", J().n("reported", res).n("true", (double)tv).n("iters", iters)); return false; }
    long double rel, flo;
    if (sp.explicit_res) { rel = 1e-6L; flo = 8.0L * sp.u * (R.maxrow + 3) * (R.absAx + R.nf) / R.nf; }
    else { if (!(sp.kappa >= 1) || !std::isfinite(sp.kappa)) { fprintf(stderr, "harness: check_solution needs kappa for recursive-residual solvers\n"); exit(3); }
           rel = 1e-3L; flo = 100.0L * sp.u * (iters + 1) * sp.kappa; }
    long double bound = std::max(rel * tv, flo), diff = fabsl((long double)res - tv);
    obs_max(std::string("max_mismatch_over_bound_") + (sp.explicit_res ? "explicit" : "recursive"), (double)(diff / bound));
    ok &= c.check(diff <= bound, name + ":residual-mismatch", "reported residual differs from the true relative residual of the mapped-back solution in the ORIGINAL system beyond the rounding bound",
                  J().n("reported", res).n("true", (double)tv).n("bound", (double)bound).n("iters", iters).n("tol", sp.tol));
    if (sp.must_converge)
        ok &= c.check(std::isfinite((double)tv) && tv <= (long double)sp.tol + bound, name + ":not-a-solution", "the mapped-back result does not solve the original system to the requested tolerance",
                      J().n("reported", res).n("true", (double)tv).n("tol", sp.tol).n("iters", iters).n("maxiter", sp.maxiter));
    return ok;
}

} // namespace vf
