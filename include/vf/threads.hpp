// threads.hpp -- support for the C09 harnesses: delay injection through the
// AMGCL_VERIF hooks, barrier-epoch tracing (traced_vector), digests of amgcl
// CRS matrices / vectors, thread-count lists.
// Include after <vf/hooks.hpp>.
#pragma once
#include "vf.hpp"
#include <omp.h>
#include <sched.h>
#include <time.h>
#include <atomic>
#include <algorithm>

namespace vf {

//---------------------------------------------------------------------------
// Thread-count list.  g++/libgomp binaries must never run above 16 threads
// (spinning barriers, DESIGN section 3); clang/libomp binaries may.
//---------------------------------------------------------------------------
inline std::vector<int> thread_list(const std::string &optname, const std::string &dflt) {
    std::vector<int> v; std::stringstream ss(opt(optname, dflt)); std::string t;
    while (std::getline(ss, t, ',')) if (!t.empty()) v.push_back(atoi(t.c_str()));
    for (int t2 : v) {
        if (t2 < 1 || t2 > 64) { fprintf(stderr, "bad thread count %d\n", t2); exit(3); }
#if !defined(__clang__)
        if (t2 > 16) { fprintf(stderr, "thread count %d > 16 requested from a g++/libgomp build (use the plain-omp flavour)\n", t2); exit(3); }
#endif
    }
    if (v.empty()) { fprintf(stderr, "empty thread list\n"); exit(3); }
    return v;
}
inline std::string join_ints(const std::vector<int> &v) { std::string s; for (int x : v) { if (!s.empty()) s += ","; s += std::to_string(x); } return s; }

//---------------------------------------------------------------------------
// Delay injection (monitors 4 and 5): the row-loop hook yields or sleeps with a
// small probability, per-thread LCG so that the monitor shares no state
// between threads.  delay_level: 0 off, 1 yields, 2 yields + short sleeps.
//---------------------------------------------------------------------------
struct DelayState { unsigned s = 0; };
inline int &delay_level() { static int l = 0; return l; }
inline unsigned &delay_salt() { static unsigned s = 1; return s; }
inline void delay_point(const char *, long) {
    static thread_local DelayState st;
    if (!st.s) st.s = 2463534242u ^ (unsigned)(omp_get_thread_num() * 7919u + delay_salt() * 104729u);
    st.s = st.s * 1664525u + 1013904223u;
    unsigned r = st.s >> 20;            // 12 bits
    int lvl = delay_level();
    if (lvl <= 0) return;
    if ((r & 15) == 0) sched_yield();
    if (lvl >= 2 && (r & 127) == 1) { struct timespec ts = {0, (long)(20000 + (r >> 7) * 4000)}; nanosleep(&ts, nullptr); }
}

//---------------------------------------------------------------------------
// Epoch trace (monitor 3).  Every element access of a traced vector appends
// (epoch, index, R/W, global ticket) to the log of the accessing thread; the
// epoch is a thread-local counter advanced by the barrier hook.  The log is
// checked after the sweep (offline).  Logs are per thread: the monitor does
// not race with itself; the ticket counter is a relaxed-ordered atomic.
//---------------------------------------------------------------------------
struct TraceEv { long epoch; long idx; unsigned long ticket; char rw; };
struct Trace {
    std::vector<std::vector<TraceEv>> logs;     // per thread
    std::vector<long> epoch;                    // per thread, padded
    std::atomic<unsigned long> ticket{0};
    void reset(int nt) { logs.assign(nt, {}); epoch.assign((size_t)nt * 16, 0); ticket.store(0); for (auto &l : logs) l.reserve(4096); }
    void hit(long idx, char rw) { int t = omp_get_thread_num(); unsigned long k = ticket.fetch_add(1, std::memory_order_seq_cst); logs[t].push_back(TraceEv{epoch[(size_t)t * 16], idx, k, rw}); }
    void barrier() { int t = omp_get_thread_num(); if ((size_t)t * 16 < epoch.size()) ++epoch[(size_t)t * 16]; }
};
inline Trace &trace() { static Trace t; return t; }
inline void trace_barrier_hook(const char *) { trace().barrier(); }

template <class T>
struct traced_vector {
    typedef T value_type;
    std::vector<T> v;
    struct ref {
        traced_vector *p; long i;
        operator T() const { trace().hit(i, 'R'); return p->v[i]; }
        ref &operator=(T x) { trace().hit(i, 'W'); p->v[i] = x; return *this; }
        ref &operator=(const ref &o) { T x = (T)o; return (*this = x); }
        ref &operator-=(T x) { trace().hit(i, 'R'); trace().hit(i, 'W'); p->v[i] -= x; return *this; }
        ref &operator+=(T x) { trace().hit(i, 'R'); trace().hit(i, 'W'); p->v[i] += x; return *this; }
    };
    ref operator[](long i) { return ref{this, i}; }
    T operator[](long i) const { trace().hit(i, 'R'); return v[i]; }
    size_t size() const { return v.size(); }
};

struct TraceVerdict { long events = 0, epochs = 0, same_epoch_conflicts = 0, barrier_order_violations = 0; long w_idx = -1, w_epoch = -1; };
// Offline log checker.
//  (a) per (index, epoch): at most one writing thread and no reader from another thread;
//  (b) barriers observed: every access of epoch e has a smaller ticket than every access of epoch e+1
//      (what a barrier between the epochs guarantees; a missing or misplaced barrier breaks it once
//      one thread is delayed).
inline TraceVerdict trace_check() {
    Trace &T = trace(); TraceVerdict V;
    std::map<std::pair<long, long>, int> writer;       // (epoch, idx) -> thread, -2 = several
    long maxe = 0;
    for (size_t t = 0; t < T.logs.size(); ++t) for (auto &e : T.logs[t]) { ++V.events; maxe = std::max(maxe, e.epoch);
        if (e.rw == 'W') { auto k = std::make_pair(e.epoch, e.idx); auto it = writer.find(k); if (it == writer.end()) writer[k] = (int)t; else if (it->second != (int)t) { ++V.same_epoch_conflicts; if (V.w_idx < 0) { V.w_idx = e.idx; V.w_epoch = e.epoch; } } } }
    for (size_t t = 0; t < T.logs.size(); ++t) for (auto &e : T.logs[t]) if (e.rw == 'R') { auto it = writer.find(std::make_pair(e.epoch, e.idx));
        if (it != writer.end() && it->second != (int)t) { ++V.same_epoch_conflicts; if (V.w_idx < 0) { V.w_idx = e.idx; V.w_epoch = e.epoch; } } }
    V.epochs = maxe + 1;
    std::vector<unsigned long> lo(maxe + 1, ~0UL), hi(maxe + 1, 0); std::vector<char> has(maxe + 1, 0);
    for (auto &l : T.logs) for (auto &e : l) { lo[e.epoch] = std::min(lo[e.epoch], e.ticket); hi[e.epoch] = std::max(hi[e.epoch], e.ticket); has[e.epoch] = 1; }
    long prev = -1;
    for (long e = 0; e <= maxe; ++e) { if (!has[e]) continue; if (prev >= 0 && !(hi[prev] < lo[e])) { ++V.barrier_order_violations; if (V.w_epoch < 0) V.w_epoch = e; } prev = e; }
    return V;
}

//---------------------------------------------------------------------------
// Digests of amgcl objects
//---------------------------------------------------------------------------
template <class M> void digest_crs(Digest &d, const M &A, bool with_values = true) {
    uint64_t n = A.nrows, m = A.ncols; d.pod(n); d.pod(m);
    if (!n) return;
    d.vec(A.ptr, n + 1); d.vec(A.col, (size_t)A.ptr[n]); if (with_values) d.vec(A.val, (size_t)A.ptr[n]);
}
template <class M> uint64_t crs_hash(const M &A, bool with_values = true) { Digest d; digest_crs(d, A, with_values); return d.h; }
template <class V> uint64_t vec_hash(const V &x) { Digest d; uint64_t n = x.size(); d.pod(n); for (size_t i = 0; i < x.size(); ++i) { auto v = x[i]; d.pod(v); } return d.h; }
inline std::string hex64(uint64_t h) { char b[20]; snprintf(b, sizeof b, "%016llx", (unsigned long long)h); return b; }

} // namespace vf
