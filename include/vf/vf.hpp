// vf.hpp -- harness-side support: arguments, seeds, JSON-lines event log,
// digests.  Header-only, no dependency on amgcl.
//
// Protocol (one JSON object per line, written to the file named by $VF_OUT,
// or stdout when unset):
//   {"t":"begin","sub":S,"idx":I,"desc":{...}}     before a case is executed (flushed)
//   {"t":"fail","sub":S,"idx":I,"key":K,"what":W}  an oracle failed
//   {"t":"end","sub":S,"idx":I,"checks":N,"nt":M,"h":H}  case finished; N oracle
//        evaluations, M distinct non-trivial sub-cases (0/1 for simple cases), H descriptor hash
//   {"t":"obs","name":N,"op":"max|min|sum|set|str","v":V}     monitor observations (at exit)
//   {"t":"sample","v":{...}}                        a case written out for the evidence file
//   {"t":"done"}                                    harness reached its normal end
#pragma once
#include <cstdio>
#include <cstdlib>
#include <cstring>
#include <cstdint>
#include <cmath>
#include <string>
#include <vector>
#include <map>
#include <set>
#include <sstream>
#include <iomanip>
#include <complex>
#include <limits>
#include <type_traits>
#include <stdexcept>
#include <functional>

namespace vf {

//---------------------------------------------------------------------------
// RNG: splitmix64 / xoshiro256**
//---------------------------------------------------------------------------
inline uint64_t splitmix64(uint64_t &s) {
    uint64_t z = (s += 0x9e3779b97f4a7c15ULL);
    z = (z ^ (z >> 30)) * 0xbf58476d1ce4e5b9ULL;
    z = (z ^ (z >> 27)) * 0x94d049bb133111ebULL;
    return z ^ (z >> 31);
}
inline uint64_t fnv1a(const void *p, size_t n, uint64_t h = 1469598103934665603ULL) {
    const unsigned char *c = static_cast<const unsigned char*>(p);
    for (size_t i = 0; i < n; ++i) { h ^= c[i]; h *= 1099511628211ULL; }
    return h;
}
inline uint64_t hash_str(const std::string &s, uint64_t h = 1469598103934665603ULL) { return fnv1a(s.data(), s.size(), h); }

struct Rng {
    uint64_t s[4];
    explicit Rng(uint64_t seed = 1) { uint64_t x = seed; for (auto &v : s) v = splitmix64(x); }
    static uint64_t rotl(uint64_t x, int k) { return (x << k) | (x >> (64 - k)); }
    uint64_t next() {
        uint64_t r = rotl(s[1] * 5, 7) * 9, t = s[1] << 17;
        s[2] ^= s[0]; s[3] ^= s[1]; s[1] ^= s[2]; s[0] ^= s[3]; s[2] ^= t; s[3] = rotl(s[3], 45);
        return r;
    }
    uint64_t operator()() { return next(); }
    // uniform integer in [lo, hi]
    long range(long lo, long hi) { if (hi <= lo) return lo; return lo + (long)(next() % (uint64_t)(hi - lo + 1)); }
    double uni() { return (next() >> 11) * (1.0 / 9007199254740992.0); }
    double uni(double a, double b) { return a + (b - a) * uni(); }
    bool coin(double p = 0.5) { return uni() < p; }
    template <class T> const T& pick(const std::vector<T> &v) { return v[next() % v.size()]; }
    template <class T> void shuffle(std::vector<T> &v) { for (size_t i = v.size(); i > 1; --i) std::swap(v[i-1], v[next() % i]); }
    // log-uniform in [a,b]
    double logu(double a, double b) { return std::exp(uni(std::log(a), std::log(b))); }
};

//---------------------------------------------------------------------------
// JSON building (tiny)
//---------------------------------------------------------------------------
inline std::string jstr(const std::string &s) {
    std::string o = "\"";
    for (unsigned char c : s) {
        switch (c) {
            case '"': o += "\\\""; break; case '\\': o += "\\\\"; break;
            case '\n': o += "\\n"; break; case '\t': o += "\\t"; break; case '\r': o += "\\r"; break;
            default: if (c < 0x20) { char b[8]; snprintf(b, sizeof b, "\\u%04x", c); o += b; } else o += (char)c;
        }
    }
    return o + "\"";
}
inline std::string jnum(double v) {
    if (std::isnan(v)) return "\"nan\""; if (std::isinf(v)) return v > 0 ? "\"inf\"" : "\"-inf\"";
    char b[40]; snprintf(b, sizeof b, "%.6g", v); return b;
}
inline std::string jnum(long double v) { return jnum((double)v); }
inline std::string jnum(float v) { return jnum((double)v); }
template <class T> typename std::enable_if<std::is_integral<T>::value, std::string>::type jnum(T v) { return std::to_string(v); }

// J: ordered key/value object builder:  J().s("a","x").n("n",3).str()
struct J {
    std::string b; bool first = true;
    J& raw(const std::string &k, const std::string &v) { b += (first ? "" : ","); first = false; b += jstr(k) + ":" + v; return *this; }
    J& s(const std::string &k, const std::string &v) { return raw(k, jstr(v)); }
    template <class T> J& n(const std::string &k, T v) { return raw(k, jnum(v)); }
    J& bl(const std::string &k, bool v) { return raw(k, v ? "true" : "false"); }
    J& o(const std::string &k, const J &v) { return raw(k, v.str()); }
    template <class T> J& arr(const std::string &k, const std::vector<T> &v, size_t maxn = 64) {
        std::string a = "["; for (size_t i = 0; i < v.size() && i < maxn; ++i) { if (i) a += ","; a += jnum(v[i]); } a += "]"; return raw(k, a);
    }
    std::string str() const { return "{" + b + "}"; }
};

//---------------------------------------------------------------------------
// Context
//---------------------------------------------------------------------------
struct Ctx {
    uint64_t seed = 1;
    bool thorough = false;
    int shard = 0, nshards = 1;
    std::string only_sub; long only_idx = -1;       // --only sub[:idx]
    std::vector<std::string> subs;                  // --sub a,b,c (empty = all)
    std::map<std::string, std::string> kv;          // --key=value extras
    FILE *out = nullptr;
    int rank = 0;
    // observations
    std::map<std::string, double> omax, omin, osum; std::map<std::string, std::string> oset, ostr;
    std::map<std::string, int> nsamples;
    long total_cases = 0, total_fail = 0;
};
inline Ctx& ctx() { static Ctx c; return c; }

inline void emit(const std::string &line) { FILE *f = ctx().out ? ctx().out : stdout; fputs(line.c_str(), f); fputc('\n', f); fflush(f); }

inline void init(int argc, char **argv) {
    Ctx &c = ctx();
    if (const char *s = getenv("VERIF_SEED")) c.seed = strtoull(s, 0, 10);
    if (const char *s = getenv("VERIF_TIER")) c.thorough = !strcmp(s, "thorough");
    for (int i = 1; i < argc; ++i) {
        std::string a = argv[i];
        auto val = [&](void) -> std::string { if (i + 1 >= argc) { fprintf(stderr, "missing value for %s\n", a.c_str()); exit(3);} return argv[++i]; };
        if (a == "--seed") c.seed = strtoull(val().c_str(), 0, 10);
        else if (a == "--tier") c.thorough = (val() == "thorough");
        else if (a == "--shard") { std::string v = val(); sscanf(v.c_str(), "%d/%d", &c.shard, &c.nshards); }
        else if (a == "--only") { std::string v = val(); size_t p = v.rfind(':'); if (p == std::string::npos) c.only_sub = v; else { c.only_sub = v.substr(0, p); c.only_idx = atol(v.c_str() + p + 1); } }
        else if (a == "--sub") { std::string v = val(); std::stringstream ss(v); std::string t; while (std::getline(ss, t, ',')) c.subs.push_back(t); }
        else if (a.rfind("--", 0) == 0 && a.find('=') != std::string::npos) { size_t p = a.find('='); c.kv[a.substr(2, p - 2)] = a.substr(p + 1); }
        else { fprintf(stderr, "unknown argument %s\n", a.c_str()); exit(3); }
    }
    if (const char *r = getenv("OMPI_COMM_WORLD_RANK")) c.rank = atoi(r);
    if (const char *o = getenv("VF_OUT")) {
        std::string p = o; if (getenv("OMPI_COMM_WORLD_RANK")) p += "." + std::to_string(c.rank);
        c.out = fopen(p.c_str(), "w");
        if (!c.out) { fprintf(stderr, "cannot open %s\n", p.c_str()); exit(3); }
    }
}
inline bool thorough() { return ctx().thorough; }
inline long tier(long quick, long thor) { return ctx().thorough ? thor : quick; }
inline std::string opt(const std::string &k, const std::string &d = "") { auto it = ctx().kv.find(k); return it == ctx().kv.end() ? d : it->second; }
inline long opt_int(const std::string &k, long d) { auto it = ctx().kv.find(k); return it == ctx().kv.end() ? d : atol(it->second.c_str()); }

// is sub-check enabled at all
inline bool sub_enabled(const std::string &sub) {
    Ctx &c = ctx();
    if (!c.only_sub.empty()) return c.only_sub == sub;
    if (c.subs.empty()) return true;
    for (auto &s : c.subs) if (s == sub) return true;
    return false;
}
// should case (sub, idx) run in this process
inline bool selected(const std::string &sub, long idx) {
    Ctx &c = ctx();
    if (!sub_enabled(sub)) return false;
    if (!c.only_sub.empty()) return c.only_idx < 0 || c.only_idx == idx;
    return (idx % c.nshards) == c.shard;
}
inline uint64_t case_seed(const std::string &sub, long idx) {
    uint64_t s = ctx().seed * 0x9e3779b97f4a7c15ULL ^ hash_str(sub); s ^= (uint64_t)idx * 0xd1342543de82ef95ULL;
    return splitmix64(s);
}

inline void obs_max(const std::string &n, double v) { auto &m = ctx().omax; auto it = m.find(n); if (it == m.end()) m[n] = v; else if (v > it->second || std::isnan(v)) it->second = v; }
inline void obs_min(const std::string &n, double v) { auto &m = ctx().omin; auto it = m.find(n); if (it == m.end()) m[n] = v; else if (v < it->second) it->second = v; }
inline void obs_sum(const std::string &n, double v = 1) { ctx().osum[n] += v; }
inline void obs_set(const std::string &n, const std::string &v) { ctx().ostr[n] = v; }
// add a token to a set-valued observation (kept as sorted comma list)
inline void obs_add(const std::string &n, const std::string &tok) {
    static std::map<std::string, std::set<std::string>> sets; auto &s = sets[n]; s.insert(tok);
    std::string j; for (auto &t : s) { if (!j.empty()) j += ","; j += t; } ctx().oset[n] = j;
}
inline void sample(const std::string &group, const J &v, int maxn = 3) {
    int &k = ctx().nsamples[group]; if (k >= maxn) return; ++k;
    emit("{\"t\":\"sample\",\"group\":" + jstr(group) + ",\"v\":" + v.str() + "}");
}

struct Case {
    std::string sub; long idx; long checks = 0; long nt = 0; uint64_t h; bool failed = false; J desc_;
    Case(const std::string &sub_, long idx_, const J &desc) : sub(sub_), idx(idx_), desc_(desc) {
        h = hash_str(desc.str(), hash_str(sub));
        emit("{\"t\":\"begin\",\"sub\":" + jstr(sub) + ",\"idx\":" + std::to_string(idx) + ",\"desc\":" + desc.str() + "}");
        ctx().total_cases++;
    }
    // mark this case (or n sub-cases of it) non-trivial
    void nontrivial(long n = 1) { nt += n; }
    void fail(const std::string &key, const std::string &what, const J &detail = J()) {
        failed = true; ctx().total_fail++;
        emit("{\"t\":\"fail\",\"sub\":" + jstr(sub) + ",\"idx\":" + std::to_string(idx) + ",\"key\":" + jstr(key) + ",\"what\":" + jstr(what) +
             ",\"desc\":" + desc_.str() + ",\"detail\":" + detail.str() + "}");
    }
    // oracle evaluation: returns ok
    bool check(bool ok, const std::string &key, const std::string &what, const J &detail = J()) { ++checks; if (!ok) fail(key, what, detail); return ok; }
    // numeric oracle with NaN discipline: passes iff value is finite and value <= bound
    bool check_le(double value, double bound, const std::string &key, const std::string &what) {
        ++checks; bool ok = std::isfinite(value) && std::isfinite(bound) && (value <= bound);
        if (!ok) fail(key, what, J().n("value", value).n("bound", bound));
        return ok;
    }
    ~Case() {
        emit("{\"t\":\"end\",\"sub\":" + jstr(sub) + ",\"idx\":" + std::to_string(idx) + ",\"checks\":" + std::to_string(checks) +
             ",\"nt\":" + std::to_string(nt) + ",\"h\":\"" + std::to_string(h) + "\"}");
    }
};

inline int finish() {
    Ctx &c = ctx();
    for (auto &p : c.omax) emit("{\"t\":\"obs\",\"name\":" + jstr(p.first) + ",\"op\":\"max\",\"v\":" + jnum(p.second) + "}");
    for (auto &p : c.omin) emit("{\"t\":\"obs\",\"name\":" + jstr(p.first) + ",\"op\":\"min\",\"v\":" + jnum(p.second) + "}");
    for (auto &p : c.osum) emit("{\"t\":\"obs\",\"name\":" + jstr(p.first) + ",\"op\":\"sum\",\"v\":" + jnum(p.second) + "}");
    for (auto &p : c.oset) emit("{\"t\":\"obs\",\"name\":" + jstr(p.first) + ",\"op\":\"set\",\"v\":" + jstr(p.second) + "}");
    for (auto &p : c.ostr) emit("{\"t\":\"obs\",\"name\":" + jstr(p.first) + ",\"op\":\"str\",\"v\":" + jstr(p.second) + "}");
    emit("{\"t\":\"done\",\"cases\":" + std::to_string(c.total_cases) + ",\"fails\":" + std::to_string(c.total_fail) + "}");
    if (c.out) fclose(c.out);
    return 0;
}

//---------------------------------------------------------------------------
// Digests of bit patterns
//---------------------------------------------------------------------------
struct Digest {
    uint64_t h = 1469598103934665603ULL;
    template <class T> void pod(const T &v) { h = fnv1a(&v, sizeof(T), h); }
    template <class T> void vec(const T *p, size_t n) { uint64_t nn = n; pod(nn); if (n) h = fnv1a(p, n * sizeof(T), h); }
    template <class T> void vec(const std::vector<T> &v) { vec(v.data(), v.size()); }
    std::string hex() const { char b[20]; snprintf(b, sizeof b, "%016llx", (unsigned long long)h); return b; }
};

// machine epsilons
template <class T> struct eps_of { static double get() { return std::numeric_limits<T>::epsilon(); } };
template <class T> struct eps_of<std::complex<T>> { static double get() { return std::numeric_limits<T>::epsilon(); } };

} // namespace vf

// Exception-safe case body: an unexpected exception inside a monitored call is
// reported as a failure with key "exception:<what-prefix>" unless the harness
// handles it itself.
#define VF_TRY_CASE(c, body) \
    try { body; } catch (const std::exception &vf_e_) { (c).fail(std::string("exception:") + (c).sub, vf_e_.what()); } \
    catch (...) { (c).fail(std::string("exception:") + (c).sub, "non-std exception"); }
