#!/usr/bin/env python3
"""Regenerate the generated parts of DESIGN.md (findings tables in section 8, seeded table in section 10) and the
lead_confirmation block of every seeded/<id>/meta.json from known_findings.json, seeded/RESULTS.json and seeded/HISTORY.json."""
import json, os, re, glob, subprocess
V = os.path.dirname(os.path.dirname(os.path.abspath(__file__)))
R = json.load(open(os.path.join(V, 'seeded', 'RESULTS.json')))
H = json.load(open(os.path.join(V, 'seeded', 'HISTORY.json')))
K = json.load(open(os.path.join(V, 'known_findings.json')))

ids = []
for d in sorted(glob.glob(os.path.join(V, 'seeded', '*', 'meta.json'))):
    i = os.path.basename(os.path.dirname(d)); ids.append(i); m = json.load(open(d)); r = R.get(i, {})
    m['lead_confirmation'] = {'patch_applies_to_repo_head': True,
        'baseline_tests_with_patch': '12/12 test executables (20 test cases) pass (tools/seeded.py baseline, OMP_NUM_THREADS=2)',
        'demo': 'exit 0 without the patch, non-zero with it (tools/seeded.py demo)',
        'checks_run': 'tools/seeded.py check %s (quick tier, patch applied in a scratch worktree, VERIF_REPO pointing at it)' % i,
        'caught_by': r.get('caught_by', []), 'first_keys': r.get('first_keys', [])}
    if i in H: m['lead_confirmation']['history'] = H[i]
    json.dump(m, open(d, 'w'), indent=1)

p = os.path.join(V, 'DESIGN.md'); s = open(p).read()
# --- section 8 tables
a = s.index('### Repaired (documentation only'); b = s.index('### Known findings (reported as')
rows = []
for n, l in enumerate(K['fixed'], 1):
    m = re.match(r'fixed: property=(C\d+) (\w+) (.*)', l)
    rows.append('| R%02d | %s | %s | fixed `%s` |' % (n, m.group(1), m.group(3).replace('|', '/'), m.group(2)))
s = s[:a] + '### Repaired (documentation only: a `fixed` entry suppresses nothing)\n\n| # | property | what failed (witness) | commit |\n|---|---|---|---|\n' + '\n'.join(rows) + '\n\n' + s[b:]
s = re.sub(r'\*\*\d+ genuine defects were repaired\*\*', '**%d genuine defects were repaired**' % len(K['fixed']), s)
s = re.sub(r'\*\*\d+ are recorded as\nknown findings\*\*', '**%d are recorded as\nknown findings**' % len(K['findings']), s)
a = s.index('| # | property | match | what fails'); b = s.index('False alarms met while calibrating')
frows = []
for n, f in enumerate(K['findings'], 1):
    frows.append('| K%02d | %s | sub `%s`, key `%s`%s | %s |' % (n, f['property'], f.get('sub', '.*').replace('|', '\\|'), f['key'].replace('|', '\\|'),
                 (', where ' + json.dumps(f['where'])) if f.get('where') else '', f['what'].replace('|', '/')))
s = s[:a] + '| # | property | match | what fails, witness, why it is not repaired |\n|---|---|---|---|\n' + '\n'.join(frows) + '\n\n' + s[b:]
# --- section 10
t = subprocess.check_output(['python3', os.path.join(V, 'tools', 'seeded.py'), 'report'], text=True)
i = s.index('## 10. Seeded changes: which check catches which')
nround = {}
for k in H: nround[(int(k.split('-')[1]) + 1) // 2] = nround.get((int(k.split('-')[1]) + 1) // 2, 0) + 1
other = [k for k, v in H.items() if v.startswith('not reached') or v.startswith('missed by C')]
missed_now = [k for k in ids if k in R and not R[k]['caught_by']]
new = '''## 10. Seeded changes: which check catches which

`/verif/seeded/<id>/` holds `patch.diff`, the demonstration (`demo.cpp`, exit 0
without the change, non-zero with it) and `meta.json` (property, what it
breaks, what it needs to manifest, what was run, and `lead_confirmation`).
%d rounds of independent sub-agents (each saw only the property text and a
private worktree; from round 2 on they were additionally told which code
sites the earlier rounds had used, to spread the changes) produced **%d
changes**.  Each was confirmed by me: the patch applies to /repo HEAD, the
repository's test suite passes with it (12 executables / 20 cases), the
demonstration behaves as claimed, and the quick tier of the named check(s) was
run against it (`tools/seeded.py baseline|demo|check <id>`; results in
`seeded/RESULTS.json`).  Patches that collided with later `fix:` commits were
re-based by hand (C01-1, C05-1, C10-2, C19-1); the demo of C09-1 was adapted
because the F4 / F8 repairs mask the change on structurally symmetric and on
pre-sorted input.

**%d of the %d were missed by the first version of the check they were seeded
for** (per round: %s).  Some of those are in the domain of another registered
check, which catches them (`detect_with` in the change's `meta.json`); every
other miss was answered by adding observability – a new input class, history,
job or definition oracle – never by cleverer inference.  `seeded/HISTORY.json`
and the `history` field of each `meta.json` record what was added.%s

| missed change | what happened |
|---|---|
''' % (max(nround) if nround else 1, len(ids), len(H), len(ids), ', '.join('%d' % nround.get(r, 0) for r in sorted(nround)),
       ('\n\n**Still missed at the end of the build round** (time ran out before the checks could be strengthened; they are listed so that nobody reads more into the evidence than is there): ' + ', '.join(missed_now) + '.') if missed_now else '')
new += '\n'.join('| %s | %s |' % (k, v) for k, v in sorted(H.items())) + '''

Two of the added sub-checks immediately exposed further genuine defects on the
unchanged tree (Eigen-block `is_zero`, `mpi::cpr` accepting `active_rows`),
both repaired.  What this says about reach: roughly one seeded change in three
needed a workload class that the check's author had not thought of, so the
evidence of every check should be read as "held on the classes listed in its
`rule`", and a further round would very likely find more.

''' + t + '\n'
s = s[:i] + new
open(p, 'w').write(s)
print('ids', len(ids), 'history', len(H), 'still missed', missed_now)
