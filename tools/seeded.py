#!/usr/bin/env python3
"""Seeded property-breaking changes (/verif/seeded/<id>/): confirm and run.

  tools/seeded.py baseline <id,id,..>  apply each patch.diff in a persistent scratch worktree, rebuild incrementally, run the repository's test suite
  tools/seeded.py baseline-clean       remove that worktree and its build directory
  tools/seeded.py demo <id>            build/run the demonstration with and without the patch (meta.json: demo_cmd)
  tools/seeded.py check <id> [--tier quick] [--inplace]
                                       run the property's check against the patched tree (scratch worktree via VERIF_REPO by
                                       default; --inplace applies the patch to /repo itself and reverts it afterwards)
  tools/seeded.py all [--tier quick]   check every seeded change; prints a table (caught / MISSED)
Scratch worktrees live under /tmp/vf-seeded and are removed after use.
"""
import os, sys, json, subprocess, shutil, argparse, time

VERIF = os.path.dirname(os.path.dirname(os.path.abspath(__file__)))
SEEDED = os.path.join(VERIF, 'seeded')
SCR = '/tmp/vf-seeded'

def sh(cmd, **kw):
    return subprocess.run(cmd, shell=isinstance(cmd, str), stdout=subprocess.PIPE, stderr=subprocess.STDOUT, text=True, **kw)

def meta(i): return json.load(open(os.path.join(SEEDED, i, 'meta.json')))

def worktree(name, patch=None):
    wt = os.path.join(SCR, name)
    if os.path.exists(wt): sh(['git', '-C', '/repo', 'worktree', 'remove', '--force', wt]); shutil.rmtree(wt, ignore_errors=True)
    os.makedirs(SCR, exist_ok=True)
    r = sh(['git', '-C', '/repo', 'worktree', 'add', '--detach', '-q', wt, 'HEAD'])
    if r.returncode: raise SystemExit('worktree failed: ' + r.stdout)
    if patch:
        r = sh(['git', '-C', wt, 'apply', patch])
        if r.returncode: raise SystemExit('patch does not apply to /repo HEAD: ' + r.stdout)
    return wt

def drop(wt):
    sh(['git', '-C', '/repo', 'worktree', 'remove', '--force', wt]); shutil.rmtree(wt, ignore_errors=True)
    sh(['git', '-C', '/repo', 'worktree', 'prune'])

BASE_WT = os.path.join(SCR, 'baseline-wt'); BASE_BD = os.path.join(SCR, 'baseline-build')
TENV = 'OMP_NUM_THREADS=2 OMP_WAIT_POLICY=passive '

def cmd_baseline(ids, jobs=8):
    """Persistent scratch worktree + build dir: apply each patch, rebuild incrementally, run ctest, revert."""
    head = sh(['git', '-C', '/repo', 'rev-parse', 'HEAD']).stdout.strip()
    if not os.path.exists(BASE_WT): worktree('baseline-wt')
    sh(['git', '-C', BASE_WT, 'checkout', '-q', '--detach', head]); sh(['git', '-C', BASE_WT, 'checkout', '--', '.'])
    rc = 0
    for i in ids:
        patch = os.path.join(SEEDED, i, 'patch.diff')
        r = sh(['git', '-C', BASE_WT, 'apply', patch])
        if r.returncode: print('BASELINE', i, 'PATCH-DOES-NOT-APPLY', r.stdout[-300:]); rc = 1; continue
        try:
            r = sh('cmake -G Ninja -S %s -B %s -DAMGCL_BUILD_TESTS=ON -DCMAKE_BUILD_TYPE=RelWithDebInfo > /dev/null && cmake --build %s -j%d' % (BASE_WT, BASE_BD, BASE_BD, jobs))
            if r.returncode: print(r.stdout[-3000:]); print('BASELINE', i, 'BUILD-FAILED'); rc = 1; continue
            r = sh(TENV + 'ctest --test-dir %s -j4 --timeout 1800' % BASE_BD)
            ok = '100% tests passed' in r.stdout
            print('BASELINE', i, 'PASS (%s)' % r.stdout.strip().splitlines()[-3].strip() if ok else 'FAIL\n' + r.stdout[-1500:])
            if not ok: rc = 1
        finally:
            sh(['git', '-C', BASE_WT, 'checkout', '--', '.'])
    return rc

def cmd_baseline_clean():
    shutil.rmtree(BASE_BD, ignore_errors=True); drop(BASE_WT)

def cmd_demo(i):
    m = meta(i); d = os.path.join(SEEDED, i); res = {}
    for label, patch in (('unpatched', None), ('patched', os.path.join(d, 'patch.diff'))):
        wt = worktree('demo-' + i, patch)
        try:
            r = sh(m['demo_cmd'].replace('{repo}', wt).replace('{dir}', d).replace('{out}', os.path.join(SCR, 'demo-%s.bin' % i)), cwd=d)
            res[label] = r.returncode; print('--- %s: rc=%d\n%s' % (label, r.returncode, r.stdout[-800:]))
        finally: drop(wt)
    ok = res['unpatched'] == 0 and res['patched'] != 0
    print('DEMO', i, 'OK (passes without, fails with the change)' if ok else 'NOT-CONFIRMED %r' % res); return 0 if ok else 1

def cmd_check(i, tier='quick', inplace=False, seed='1'):
    m = meta(i); patch = os.path.join(SEEDED, i, 'patch.diff'); props = m['property'] if isinstance(m['property'], list) else [m['property']]
    props = m.get('detect_with', props)
    env = dict(os.environ); wt = None
    if inplace:
        r = sh(['git', '-C', '/repo', 'apply', patch])
        if r.returncode: print('patch does not apply: ' + r.stdout); return 2
    else:
        wt = worktree('chk-' + i, patch); env['VERIF_REPO'] = wt; env['VERIF_BUILD'] = os.path.join(SCR, 'build-' + i)
    caught = []; keys = []
    try:
        for p in props:
            t0 = time.time()
            r = subprocess.run([os.path.join(VERIF, 'vf'), 'check', p, '--tier', tier, '--seed', seed], cwd=VERIF, env=env, stdout=subprocess.PIPE, stderr=subprocess.STDOUT, text=True)
            v = [l for l in r.stdout.splitlines() if l.startswith('VIOLATION')]
            print('%s vs %s [%s]: rc=%d, %d VIOLATION line(s), %.0fs' % (i, p, tier, r.returncode, len(v), time.time() - t0))
            for l in r.stdout.splitlines():
                if l.startswith(('VIOLATION', '   sub=', 'HARNESS-FAILURE', 'INCONCLUSIVE')): print('   ', l[:300])
            if r.returncode == 1 and v:
                caught.append(p)
                import re as _re
                for l in r.stdout.splitlines():
                    m = _re.match(r'\s+sub=(\S+) key=(\S+)', l)
                    if m and len(keys) < 4: keys.append('%s: %s / %s' % (p, m.group(1), m.group(2)))
    finally:
        if inplace: sh(['git', '-C', '/repo', 'checkout', '--', '.'])
        else:
            shutil.rmtree(os.path.join(SCR, 'build-' + i), ignore_errors=True); drop(wt)
    print('SEEDED', i, 'caught by ' + ','.join(caught) if caught else 'MISSED')
    record(i, caught, tier, keys)
    return 0 if caught else 1

RESULTS = os.path.join(SEEDED, 'RESULTS.json')
def record(i, caught, tier, keys):
    try: d = json.load(open(RESULTS))
    except Exception: d = {}
    head = sh(['git', '-C', '/repo', 'log', '--format=%h', '-1']).stdout.strip()
    d[i] = dict(caught_by=caught, tier=tier, first_keys=keys, repo_head=head, when=time.strftime('%Y-%m-%d %H:%M'))
    json.dump(d, open(RESULTS, 'w'), indent=1, sort_keys=True)

def cmd_report():
    d = json.load(open(RESULTS)); rows = []
    for i in sorted(os.listdir(SEEDED)):
        mp = os.path.join(SEEDED, i, 'meta.json')
        if not os.path.exists(mp): continue
        m = meta(i); r = d.get(i, {})
        rows.append('| %s | %s | %s | %s | %s |' % (i, m.get('title', '').replace('|', '/'), (m.get('needs_to_manifest', '')[:160]).replace('|', '/').replace('\n', ' '),
                    ', '.join(r.get('caught_by', [])) or ('**MISSED**' if r else 'not run'), '; '.join(k.split(': ', 1)[1] for k in r.get('first_keys', [])[:2])))
    print('| id | change | needs | caught by (quick) | first keys |\n|---|---|---|---|---|'); print('\n'.join(rows))

def main():
    ap = argparse.ArgumentParser(); ap.add_argument('cmd'); ap.add_argument('id', nargs='?'); ap.add_argument('--tier', default='quick'); ap.add_argument('--inplace', action='store_true'); ap.add_argument('--seed', default='1')
    a = ap.parse_args()
    if a.cmd == 'baseline': sys.exit(cmd_baseline(a.id.split(',')))
    if a.cmd == 'baseline-clean': cmd_baseline_clean(); sys.exit(0)
    if a.cmd == 'demo': sys.exit(cmd_demo(a.id))
    if a.cmd == 'check': sys.exit(cmd_check(a.id, a.tier, a.inplace, a.seed))
    if a.cmd == 'report': cmd_report(); sys.exit(0)
    if a.cmd == 'all':
        rows = []
        for i in sorted(os.listdir(SEEDED)):
            if not os.path.exists(os.path.join(SEEDED, i, 'meta.json')): continue
            rows.append((i, cmd_check(i, a.tier, a.inplace, a.seed)))
        print('\n'.join('%-28s %s' % (i, 'caught' if rc == 0 else 'MISSED') for i, rc in rows)); sys.exit(0 if all(rc == 0 for _, rc in rows) else 1)
    ap.print_help()
if __name__ == '__main__': main()
