#!/usr/bin/env python3
"""Seeded property-breaking changes (/verif/seeded/<id>/): confirm and run.

  tools/seeded.py baseline <id>        apply patch.diff in a scratch worktree, build + run the repository's 20 tests there
  tools/seeded.py demo <id>            build/run the demonstration with and without the patch (meta.json: demo_cmd)
  tools/seeded.py check <id> [--tier quick] [--inplace]
                                       run the property's check against the patched tree (scratch worktree via VERIF_REPO by
                                       default; --inplace applies the patch to /repo itself and reverts it afterwards)
  tools/seeded.py all [--tier quick]   check every seeded change; prints a table (caught / MISSED)
Scratch worktrees live under /tmp/vf-seeded and are removed after use.
"""
import os, sys, json, subprocess, shutil, argparse, time

VERIF = os.path.dirname(os.path.dirname(os.path.abspath(__file__)))
SEEDED = os.path.join(VERIF, 'seeded')
SCR = '/tmp/vf-seeded'

def sh(cmd, **kw):
    return subprocess.run(cmd, shell=isinstance(cmd, str), stdout=subprocess.PIPE, stderr=subprocess.STDOUT, text=True, **kw)

def meta(i): return json.load(open(os.path.join(SEEDED, i, 'meta.json')))

def worktree(name, patch=None):
    wt = os.path.join(SCR, name)
    if os.path.exists(wt): sh(['git', '-C', '/repo', 'worktree', 'remove', '--force', wt]); shutil.rmtree(wt, ignore_errors=True)
    os.makedirs(SCR, exist_ok=True)
    r = sh(['git', '-C', '/repo', 'worktree', 'add', '--detach', '-q', wt, 'HEAD'])
    if r.returncode: raise SystemExit('worktree failed: ' + r.stdout)
    if patch:
        r = sh(['git', '-C', wt, 'apply', patch])
        if r.returncode: raise SystemExit('patch does not apply to /repo HEAD: ' + r.stdout)
    return wt

def drop(wt):
    sh(['git', '-C', '/repo', 'worktree', 'remove', '--force', wt]); shutil.rmtree(wt, ignore_errors=True)
    sh(['git', '-C', '/repo', 'worktree', 'prune'])

def cmd_baseline(i, jobs=8):
    wt = worktree('base-' + i, os.path.join(SEEDED, i, 'patch.diff')); bd = wt + '_build'
    try:
        r = sh('cmake -G Ninja -S %s -B %s -DAMGCL_BUILD_TESTS=ON -DCMAKE_BUILD_TYPE=RelWithDebInfo && cmake --build %s -j%d' % (wt, bd, bd, jobs))
        if r.returncode: print(r.stdout[-3000:]); print('BASELINE-BUILD-FAILED', i); return 1
        r = sh('ctest --test-dir %s -j%d --timeout 1800' % (bd, jobs)); print(r.stdout[-1500:])
        ok = '100% tests passed' in r.stdout
        print('BASELINE', i, 'PASS' if ok else 'FAIL'); return 0 if ok else 1
    finally:
        shutil.rmtree(bd, ignore_errors=True); drop(wt)

def cmd_demo(i):
    m = meta(i); d = os.path.join(SEEDED, i); res = {}
    for label, patch in (('unpatched', None), ('patched', os.path.join(d, 'patch.diff'))):
        wt = worktree('demo-' + i, patch)
        try:
            r = sh(m['demo_cmd'].replace('{repo}', wt).replace('{dir}', d).replace('{out}', os.path.join(SCR, 'demo-%s.bin' % i)), cwd=d)
            res[label] = r.returncode; print('--- %s: rc=%d\n%s' % (label, r.returncode, r.stdout[-800:]))
        finally: drop(wt)
    ok = res['unpatched'] == 0 and res['patched'] != 0
    print('DEMO', i, 'OK (passes without, fails with the change)' if ok else 'NOT-CONFIRMED %r' % res); return 0 if ok else 1

def cmd_check(i, tier='quick', inplace=False, seed='1'):
    m = meta(i); patch = os.path.join(SEEDED, i, 'patch.diff'); props = m['property'] if isinstance(m['property'], list) else [m['property']]
    props = m.get('detect_with', props)
    env = dict(os.environ); wt = None
    if inplace:
        r = sh(['git', '-C', '/repo', 'apply', patch])
        if r.returncode: print('patch does not apply: ' + r.stdout); return 2
    else:
        wt = worktree('chk-' + i, patch); env['VERIF_REPO'] = wt
    caught = []
    try:
        for p in props:
            t0 = time.time()
            r = subprocess.run([os.path.join(VERIF, 'vf'), 'check', p, '--tier', tier, '--seed', seed], cwd=VERIF, env=env, stdout=subprocess.PIPE, stderr=subprocess.STDOUT, text=True)
            v = [l for l in r.stdout.splitlines() if l.startswith('VIOLATION')]
            print('%s vs %s [%s]: rc=%d, %d VIOLATION line(s), %.0fs' % (i, p, tier, r.returncode, len(v), time.time() - t0))
            for l in r.stdout.splitlines():
                if l.startswith(('VIOLATION', '   sub=', 'HARNESS-FAILURE', 'INCONCLUSIVE')): print('   ', l[:300])
            if r.returncode == 1 and v: caught.append(p)
    finally:
        if inplace: sh(['git', '-C', '/repo', 'checkout', '--', '.'])
        else:
            import hashlib
            tag = 'alt-' + hashlib.sha1(wt.encode()).hexdigest()[:10]
            shutil.rmtree(os.path.join(VERIF, 'build', tag), ignore_errors=True); drop(wt)
    print('SEEDED', i, 'caught by ' + ','.join(caught) if caught else 'MISSED'); return 0 if caught else 1

def main():
    ap = argparse.ArgumentParser(); ap.add_argument('cmd'); ap.add_argument('id', nargs='?'); ap.add_argument('--tier', default='quick'); ap.add_argument('--inplace', action='store_true'); ap.add_argument('--seed', default='1')
    a = ap.parse_args()
    if a.cmd == 'baseline': sys.exit(cmd_baseline(a.id))
    if a.cmd == 'demo': sys.exit(cmd_demo(a.id))
    if a.cmd == 'check': sys.exit(cmd_check(a.id, a.tier, a.inplace, a.seed))
    if a.cmd == 'all':
        rows = []
        for i in sorted(os.listdir(SEEDED)):
            if not os.path.exists(os.path.join(SEEDED, i, 'meta.json')): continue
            rows.append((i, cmd_check(i, a.tier, a.inplace, a.seed)))
        print('\n'.join('%-28s %s' % (i, 'caught' if rc == 0 else 'MISSED') for i, rc in rows)); sys.exit(0 if all(rc == 0 for _, rc in rows) else 1)
    ap.print_help()
if __name__ == '__main__': main()
